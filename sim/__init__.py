"""Deterministic simulation harness for sweetpea-py (see /verif/DESIGN.md)."""
