"""Virtual clock, fake timer and line-event pre-emption for SMGen (DESIGN.md 3.4)."""
import sys
import threading as _real_threading

from sweetpea._internal.sampling_strategy import scattered_map_core as M_sm


import copy as _copy

_PRISTINE = {k: _copy.deepcopy(v) for k, v in vars(M_sm).items()
             if not k.startswith("__") and isinstance(v, (list, dict, int, float, bool)) and not isinstance(v, type)}


def reset_module_state():
    """Put scattered_map_core's process-global data back to what it was at import, so that one run cannot see the
    leftovers of another run in the same worker process (runs must be independent of worker assignment)."""
    for k in list(vars(M_sm)):
        if k in _PRISTINE:
            setattr(M_sm, k, _copy.deepcopy(_PRISTINE[k]))
    for k in ("combs_weights", "trans_in_crossing"):
        if k not in _PRISTINE and hasattr(M_sm, k):
            delattr(M_sm, k)


class SimAbort(BaseException):
    """User interrupt injected at a traced line (KeyboardInterrupt-like)."""
    injected = True


class LineCap(BaseException):
    pass


class FakeTimer:
    def __init__(self, sm, interval, fn, args=None, kwargs=None):
        self.sm = sm
        self.interval = interval
        self.fn = fn
        self.args = args or ()
        self.kwargs = kwargs or {}
        self.armed_at_step = None
        self.fire_time = None
        self.cancelled = False
        self.fired = False

    def start(self):
        sm = self.sm
        self.armed_at_step = sm.steps
        self.fire_time = sm.now + self.interval
        sm.timers.append(self)
        sm.w.log.append(("timer.arm", sm.steps, self.interval))
        sm.w.count("timer.arm")

    def cancel(self):
        if not self.cancelled:
            self.cancelled = True
            self.sm.w.log.append(("timer.cancel", self.sm.steps, "after-fire" if self.fired else "pending"))
            self.sm.w.count("timer.cancel")


class FakeThreading:
    def __init__(self, sm):
        self._sm = sm

    def Timer(self, interval, function, args=None, kwargs=None):
        return FakeTimer(self._sm, interval, function, args, kwargs)

    def __getattr__(self, name):
        return getattr(_real_threading, name)


class SMWorld:
    """Installed on top of a SimWorld `w`.  knobs: dt (virtual seconds per traced line), delivery ('thread' | 'interrupt-main'),
    fire_after (None = clock driven, else fire the armed timer this many traced lines after it was armed),
    abort_at (None or traced-line index inside the current call), line_cap."""

    def __init__(self, w, dt=1e-5, delivery="thread", fire_after=None, abort_at=None, line_cap=300000):
        self.w = w
        self.dt = dt
        self.delivery = delivery
        self.fire_after = fire_after
        self.abort_at = abort_at
        self.line_cap = line_cap
        self.now = 1000.0
        self.steps = 0
        self.call_steps = 0
        self.timers = []
        self.thread_exceptions = []
        self.fired_during = []          # (step, function name on top of the traced stack)
        self.leaked = 0
        self._tracing = False

    # seams
    def time(self):
        return self.now

    def install(self):
        w = self.w
        reset_module_state()
        w._set(M_sm, "random", w.rng.random)
        w._set(M_sm, "time", self.time)
        w._set(M_sm, "threading", FakeThreading(self))

    # tracing
    def _local(self, frame, event, arg):
        if event != "line":
            return self._local
        self.steps += 1
        self.call_steps += 1
        self.now += self.dt
        if self.call_steps > self.line_cap:
            raise LineCap()
        if self.abort_at is not None and self.call_steps == self.abort_at:
            self.abort_at = None
            self.w.fired("abort@line", frame.f_code.co_name)
            raise SimAbort()
        for t in self.timers:
            if t.cancelled or t.fired:
                continue
            due = (self.now >= t.fire_time) if self.fire_after is None else (self.steps - t.armed_at_step >= self.fire_after)
            if due:
                self._fire(t, frame)
        return self._local

    def _global(self, frame, event, arg):
        if frame.f_code.co_filename.endswith("scattered_map_core.py"):
            return self._local
        return None

    def _fire(self, t, frame):
        t.fired = True
        where = frame.f_code.co_name if frame is not None else "after-return"
        self.fired_during.append((self.steps, where))
        self.w.log.append(("timer.fire", self.steps - (t.armed_at_step or 0), where, self.delivery))
        self.w.fired("timer.fire", where)
        if self.delivery == "interrupt-main":
            # the change a maintainer is most likely to make (signal/setitimer): the handler runs in the main thread
            t.fn(None, None)
            return
        old_hook = _real_threading.excepthook
        caught = []

        def hook(args):
            caught.append(args.exc_type.__name__)
        _real_threading.excepthook = hook
        old_trace = sys.gettrace()
        sys.settrace(None)
        try:
            th = _real_threading.Thread(target=t.fn, args=t.args, kwargs=t.kwargs, name="sim-timer")
            th.start()
            th.join()
        finally:
            sys.settrace(old_trace)
            _real_threading.excepthook = old_hook
        self.thread_exceptions.extend(caught)
        for c in caught:
            self.w.log.append(("timer.thread-exception", c))

    def run(self, fn):
        """Run fn() under line tracing.  Returns (result, exception)."""
        self.call_steps = 0
        old = sys.gettrace()
        sys.settrace(self._global)
        try:
            try:
                return fn(), None
            except (LineCap, SimAbort) as e:
                return None, e
            except Exception as e:   # noqa
                if type(e).__name__ in ("CaseTimeout", "InnerTimeout", "HarnessCap"):
                    raise
                return None, e
        finally:
            sys.settrace(old)
            self.leaked += sum(1 for t in self.timers if not t.cancelled and not t.fired)

    def fire_leaked(self):
        """A timer left armed when execute() returned fires later, into whatever runs next."""
        for t in self.timers:
            if not t.cancelled and not t.fired:
                try:
                    self._fire(t, None)
                except Exception as e:   # interrupt-main delivery: the handler's exception lands in whatever runs next
                    self.w.log.append(("timer.late-exception", type(e).__name__))
                    self.w.count("timer.late-exception")
