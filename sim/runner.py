"""Seeded parallel driver, classification, known findings, minimisation, replay, evidence.

Run i of check P under VERIF_SEED s uses run_seed = sha256("s/P/i").  A case is a JSON document produced by
check.gen_case(run_seed, tier); check.run_case(case) is a pure function of the case and the code under test, so a
replay file (= the case plus what was observed) reproduces a run exactly.
"""
import argparse
import concurrent.futures as cf
import faulthandler
import hashlib
import importlib
import json
import multiprocessing
import os
import signal
import subprocess
import sys
import time
import traceback

VERIF = os.path.dirname(os.path.dirname(os.path.abspath(__file__)))
FINDINGS = os.path.join(VERIF, "findings", "known_findings.json")

COMPONENTS_REAL = [
    "sweetpea block constructors, weight desugaring, derivation processing",
    "constraint compilation, Tseitin conversion, cardinality/adder encodings",
    "DIMACS/OPB writers, the library's own DIMACS/solution parsers, iterate-and-block loops",
    "Gen.decode, implied-level filling, RandomGen + UCSolutionEnumerator, SMGen core",
    "continuous sampling, output conversions, mismatch checker",
    "SAT search inside the fake peers (pycryptosat/pycmsgen/pyunigen used as libraries by the harness)",
]
COMPONENTS_STUB = [
    "solver/sampler peer: which model is returned and over which transport (in-process fake, fake CLI)",
    "file system (SimFS, in-memory cwd), uuid4 names, stdout",
    "PRNGs (random module in RandomGen/distribution/SMGen, numpy.random in unigen.py)",
    "gurobipy (FakeGurobi), threading.Timer and time() in SMGen",
]


THOROUGH_FACTOR = 6
THOROUGH_BUDGET = 3000


class CaseTimeout(BaseException):      # BaseException: the library's blanket 'except Exception' must not swallow it
    pass


def _pythonpath():
    """PYTHONPATH for child interpreters: the scratch tree named by VERIF_REPO (if any) comes first, as in bin/check."""
    r = os.environ.get("VERIF_REPO")
    return (r + os.pathsep + VERIF) if r else VERIF


def run_seed(verif_seed, prop, i):
    return hashlib.sha256(("%s/%s/%d" % (verif_seed, prop, i)).encode()).hexdigest()[:32]


def load_check(prop):
    return importlib.import_module("sim.checks.%s" % prop.lower())


_DEADLINE = None       # wall-clock instant at which the case in progress is over; None between cases
STRAY_ALARMS = 0


def _alarm(signum, frame):
    """The case alarm.  It only counts when the deadline of the case in progress has really come: a SIGALRM that arrives
    between cases or early (twice in a day of runs one reached a worker in the first milliseconds of a case, origin not
    established) is counted, the timer is set again for what is left, and nothing is raised."""
    global STRAY_ALARMS
    d = _DEADLINE
    if d is None:
        STRAY_ALARMS += 1
        return
    left = d - time.time()
    if left > 0.05:
        STRAY_ALARMS += 1
        signal.setitimer(signal.ITIMER_REAL, left)
        return
    raise CaseTimeout()


def _raised_in_harness(e):
    tb = e.__traceback__
    last = None
    while tb is not None:
        last = tb.tb_frame.f_code.co_filename
        tb = tb.tb_next
    return bool(last) and last.startswith(os.path.join(VERIF, "sim"))


def exec_case(check, case, timeout):
    """Run one case with a wall-clock guard.  Returns the result dict."""
    old = signal.signal(signal.SIGALRM, _alarm)
    timeout = max(timeout, case.get("timeout") or 0)      # a case may declare that it needs longer (e.g. C04 needle cases)
    global _DEADLINE
    t0 = time.time()
    from . import common as _common
    _common.TIMEOUT_FIRED = False
    leaked = reset_library_state()
    stray0 = STRAY_ALARMS
    _DEADLINE = time.time() + timeout
    signal.setitimer(signal.ITIMER_REAL, timeout)
    # The alarm is one-shot, so it can reach this frame once at most - but at any line of it, also between the clauses
    # below (it was seen to fire on the very line that starts the disarming).  Hence two layers: whatever the inner
    # statement lets through is caught by the outer one, after which no alarm can follow.
    res = None
    try:
        try:
            res = check.run_case(case)
        except CaseTimeout:
            res = {"outcome": "skip", "reason": "wall-timeout"}
        except Exception as e:   # harness error, never a violation
            if isinstance(e, (AttributeError, ImportError)) and _raised_in_harness(e):
                # the harness reached for a private name of the library that is not there (any more): this run cannot be
                # judged.  That is neither a violation nor a pass; it is counted, and reported loudly by main().
                res = {"outcome": "skip", "reason": "instrumentation-missing:%s" % str(e)[:80]}
            else:
                res = {"outcome": "harness-error", "reason": "%s: %s" % (type(e).__name__, e),
                       "trace": traceback.format_exc()[-3000:]}
        except BaseException as e:   # noqa
            if type(e).__name__ in ("InnerTimeout", "HarnessCap", "LineCap"):
                res = {"outcome": "skip", "reason": "cap:" + type(e).__name__}
            else:
                raise
        finally:
            signal.setitimer(signal.ITIMER_REAL, 0)
    except CaseTimeout:
        res = {"outcome": "skip", "reason": "wall-timeout"}
    _DEADLINE = None
    signal.setitimer(signal.ITIMER_REAL, 0)
    signal.signal(signal.SIGALRM, old)
    if STRAY_ALARMS != stray0:
        res.setdefault("counters", {})["harness.stray-alarm-ignored"] = STRAY_ALARMS - stray0
    res["wall"] = time.time() - t0
    if leaked:
        res.setdefault("counters", {})
        for name in leaked:
            if "scattered_map_core" not in name:     # SMGen's process globals are known state (DESIGN.md S7)
                res["counters"]["library-state-left-by-previous-case:" + name] = 1
    if _common.TIMEOUT_FIRED:
        res["timing"] = True        # an inner wall-clock guard fired: the outcome is load dependent
    return res


def _run_one_index(check, prop, verif_seed, tier, i, timeout):
    """gen_case + exec_case (+ the fault-free re-run of a faulted violation) for one run index."""
    rs = run_seed(verif_seed, prop, i)
    try:
        case = check.gen_case(rs, tier)
    except Exception as e:
        return (i, None, {"outcome": "harness-error", "reason": "gen_case %s: %s" % (type(e).__name__, e),
                          "trace": traceback.format_exc()[-3000:], "wall": 0})
    if case is None:
        return (i, None, {"outcome": "skip", "reason": "generator-none", "wall": 0})
    case["run_index"] = i
    case["run_seed"] = rs
    # (no faulthandler.dump_traceback_later here: in this sandbox workers were seen to die abruptly right while such a dump
    # was being written - three times out of four dumps in one run - and a worker that dies takes its chunk with it; a
    # case that hangs is ended by its alarm, a hang inside C code by the pool's hard deadline)
    res = exec_case(check, case, timeout)
    if res.get("reduced_case") is not None:
        # a fault sweep found its violation at one placement: continue with the plain single-fault case
        rc = res.pop("reduced_case")
        rc["run_index"], rc["run_seed"] = i, rs
        case = rc
    if res["outcome"] == "violation" and case.get("faults"):
        # does the violation need the injected faults?  If it persists fault-free it is reported as such.
        c2 = dict(case)
        c2["faults"] = []
        r2 = exec_case(check, c2, timeout)
        if r2["outcome"] == "violation":
            r2["faults"] = res.get("faults")
            case, res = c2, r2
        elif not res["signature"].endswith("/after-fault"):
            res["signature"] += "/after-fault"
    keep_case = res["outcome"] in ("violation", "harness-error") or i < 3
    return (i, case if keep_case else None, res)


_PRISTINE = None


def _lib_containers():
    """(owner, name, value) for every module-level and class-level dict/list/set of the sweetpea package, plus every
    lru_cache-wrapped function: the places where the library (or a change to it) can keep state between calls."""
    import types
    out = []
    caches = []
    for mname, mod in list(sys.modules.items()):
        if not (mname == "sweetpea" or mname.startswith("sweetpea.")) or mod is None:
            continue
        for k, v in list(vars(mod).items()):
            if k.startswith("__"):
                continue
            if isinstance(v, (dict, list, set)) and not isinstance(v, type):
                out.append((mod, k, v))
            elif hasattr(v, "cache_clear") and callable(getattr(v, "cache_clear")):
                caches.append(v)
            elif isinstance(v, type) and getattr(v, "__module__", "") == mname:
                for ck, cv in list(vars(v).items()):
                    if isinstance(cv, (staticmethod, classmethod)):
                        cv = cv.__func__
                    if isinstance(cv, types.FunctionType):
                        _defaults(cv, "%s.%s" % (v.__name__, ck), out)
                    if ck.startswith("__"):
                        continue
                    if isinstance(cv, (dict, list, set)):
                        out.append((v, ck, cv))
                    elif hasattr(cv, "cache_clear") and callable(getattr(cv, "cache_clear")):
                        caches.append(cv)
            elif isinstance(v, types.FunctionType) and getattr(v, "__module__", "") == mname:
                _defaults(v, k, out)
    return out, caches


class _DefaultsOwner:
    """Stands for 'the default arguments of function X' in the container list (mutable default arguments are
    process-wide state, too: a constructor that appends to its `constraints=[]` default changes every later call)."""

    def __init__(self, name):
        self.__name__ = name


_DEFAULT_OWNERS = {}


def _defaults(fn, name, out):
    for i, d in enumerate(fn.__defaults__ or ()):
        if isinstance(d, (dict, list, set)):
            key = (id(fn), i)
            if key not in _DEFAULT_OWNERS:
                _DEFAULT_OWNERS[key] = _DefaultsOwner("%s.%s" % (fn.__module__, name))
            out.append((_DEFAULT_OWNERS[key], "default#%d" % i, d))


def reset_library_state():
    """Called before every case: puts every module-/class-level container of sweetpea back to what it held when the worker
    started and clears function caches, so that a run can neither see the leftovers of an earlier run in the same worker
    nor depend on which worker executes it.  (Forking one process per case would do the same by brute force, but a fork
    costs 0.2-0.9 s in this sandbox.)  Returns the names that had changed (a probe: state the library keeps between calls)."""
    global _PRISTINE
    import copy
    conts, caches = _lib_containers()
    changed = []
    if _PRISTINE is None:
        _PRISTINE = {}
        for owner, k, v in conts:
            try:
                _PRISTINE[(id(owner), k)] = copy.deepcopy(v)
            except Exception:
                pass
        return changed
    for owner, k, v in conts:
        key = (id(owner), k)
        if key not in _PRISTINE:
            # a container that did not exist when the worker started (created lazily): empty it
            try:
                if v:
                    changed.append("%s.%s" % (getattr(owner, "__name__", owner), k))
                    v.clear()
            except Exception:
                pass
            continue
        try:
            if v != _PRISTINE[key]:
                changed.append("%s.%s" % (getattr(owner, "__name__", owner), k))
                fresh = copy.deepcopy(_PRISTINE[key])
                if isinstance(v, dict):
                    v.clear()
                    v.update(fresh)
                elif isinstance(v, list):
                    v[:] = fresh
                else:
                    v.clear()
                    v.update(fresh)
        except Exception:
            pass
    for c in caches:
        try:
            c.cache_clear()
        except Exception:
            pass
    return changed


def isolated(fn, hard_timeout):
    """Runs fn() in a forked child and returns its (picklable) result.  One case = one process image: whatever the
    library keeps in module-level state (SMGen's globals, caches a change might add) can neither leak from one run into
    the next nor make a run depend on which worker happened to execute it; histories inside one case still share it."""
    import pickle
    import select
    r, w = os.pipe()
    pid = os.fork()
    if pid == 0:
        code = 0
        try:
            os.close(r)
            try:
                out = ("ok", fn())
            except BaseException as e:   # noqa
                out = ("exc", "%s: %s\n%s" % (type(e).__name__, e, traceback.format_exc()[-3000:]))
            data = pickle.dumps(out)
            with os.fdopen(w, "wb") as f:
                f.write(data)
        except BaseException:   # noqa
            code = 3
        finally:
            os._exit(code)
    os.close(w)
    chunks = []
    deadline = time.time() + hard_timeout
    timed_out = False
    with os.fdopen(r, "rb") as f:
        while True:
            left = deadline - time.time()
            if left <= 0:
                timed_out = True
                break
            ready, _, _ = select.select([f], [], [], min(left, 5))
            if not ready:
                continue
            b = os.read(f.fileno(), 1 << 20)
            if not b:
                break
            chunks.append(b)
    if timed_out:
        try:
            os.kill(pid, signal.SIGKILL)
        except OSError:
            pass
    _, status = os.waitpid(pid, 0)
    if timed_out:
        return ("timeout", None)
    if not chunks:
        return ("died", "child exited with status %d without a result" % status)
    try:
        return pickle.loads(b"".join(chunks))
    except Exception as e:
        return ("died", "unreadable result: %r" % (e,))


def exec_case_isolated(check, case, timeout):
    """exec_case from a clean library state (see reset_library_state)."""
    return exec_case(check, case, timeout)


def _worker(args):
    prop, verif_seed, tier, indices, timeout = args
    faulthandler.enable()
    if not getattr(_worker, "_silenced", False):
        # C-level chatter of the real engines (pyunigen prints to fd 1) must not reach the report
        os.dup2(os.open(os.devnull, os.O_WRONLY), 1)
        _worker._silenced = True
    check = load_check(prop)
    out = []
    for i in indices:
        out.append(_run_one_index(check, prop, verif_seed, tier, i, timeout))
    return out


# ---------------------------------------------------------------------------
# known findings


def load_findings():
    if not os.path.exists(FINDINGS):
        return []
    with open(FINDINGS) as f:
        return json.load(f)


def match_finding(findings, prop, signature):
    for f in findings:
        if f.get("status") != "known" or f["property"] != prop:
            continue
        if finding_matches(f, signature):
            return f
    return None


def finding_matches(f, signature):
    """A finding names one exact signature, or (signature_re) a family of signatures that all carry the finding's
    root-cause tag; a violation without that tag never matches."""
    import re
    if signature is None:
        return False
    if f.get("signature_re"):
        return re.search(f["signature_re"], signature) is not None
    return f["signature"] == signature


# ---------------------------------------------------------------------------
# minimisation


def minimise(check, case, signature, budget_runs=150, budget_s=45, timeout=20):
    if not hasattr(check, "shrink_candidates"):
        return case, 0
    t0 = time.time()
    runs = 0
    cur = case
    improved = True
    while improved and runs < budget_runs and time.time() - t0 < budget_s:
        improved = False
        for cand in check.shrink_candidates(cur):
            if runs >= budget_runs or time.time() - t0 > budget_s:
                break
            runs += 1
            res = exec_case_isolated(check, cand, timeout)
            if res["outcome"] == "violation" and res["signature"] == signature:
                cand["minimised_from"] = case.get("run_index")
                cur = cand
                improved = True
                break
    return cur, runs


def write_replay(prop, verif_seed, case, res, minimised, original_index):
    d = os.path.join(VERIF, "replays")
    os.makedirs(d, exist_ok=True)
    path = os.path.join(d, "%s-%s-%s.json" % (prop, verif_seed, original_index))
    doc = {"property": prop, "verif_seed": verif_seed, "run_index": original_index,
           "violation": {"class": res.get("class"), "signature": res.get("signature"), "detail": res.get("detail")},
           "case": case, "event_digest": res.get("digest"), "trace": res.get("trace_summary"),
           "minimised": minimised}
    with open(path, "w") as f:
        json.dump(doc, f, indent=1, sort_keys=True, default=str)
    return path


def replay(prop, path):
    check = load_check(prop)
    with open(path) as f:
        doc = json.load(f)
    case = doc["case"]
    res = exec_case(check, case, 120)
    want = doc["violation"]["signature"]
    print("replay %s: outcome=%s signature=%s digest=%s" % (path, res["outcome"], res.get("signature"), res.get("digest")))
    if res["outcome"] == "violation" and res.get("signature") == want:
        if doc.get("event_digest") and res.get("digest") != doc["event_digest"]:
            print("HARNESS-ERROR nondeterministic-replay: digest %s != %s" % (res.get("digest"), doc["event_digest"]))
            return 2
        print("VIOLATION property=%s replay=%s" % (prop, path))
        print("  " + str(res.get("detail"))[:1500])
        return 1
    if res["outcome"] == "harness-error":
        print(res.get("trace"))
        return 2
    print("replay did not reproduce the recorded violation (%s)" % want)
    return 0


# ---------------------------------------------------------------------------
# main driver


def digests_for(prop, verif_seed, tier, n, timeout):
    check = load_check(prop)
    out = {}
    for i in range(n):
        rs = run_seed(verif_seed, prop, i)
        case = check.gen_case(rs, tier)
        if case is None:
            out[i] = "skip"
            continue
        case["run_index"] = i
        case["run_seed"] = rs
        res = exec_case_isolated(check, case, timeout)
        out[i] = "wall-timeout" if res.get("timing") else "%s:%s" % (res["outcome"], res.get("digest") or res.get("reason"))
    return out


def main(argv=None):
    ap = argparse.ArgumentParser()
    ap.add_argument("prop")
    ap.add_argument("--tier", default=os.environ.get("VERIF_TIER", "quick"))
    ap.add_argument("--replay")
    ap.add_argument("--runs", type=int)
    ap.add_argument("--budget", type=float, help="wall seconds for the sampling phase")
    ap.add_argument("--workers", type=int, default=int(os.environ.get("VERIF_WORKERS", "16")))
    ap.add_argument("--digests", type=int, help="print run digests for indices 0..N-1 and exit (self-test helper)")
    ap.add_argument("--no-selftest", action="store_true")
    ap.add_argument("--no-evidence", action="store_true")
    args = ap.parse_args(argv)
    prop = args.prop.upper()
    verif_seed = str(int(os.environ.get("VERIF_SEED", "0")))
    tier = args.tier
    if tier not in ("quick", "thorough"):
        tier = "quick"
    try:
        check = load_check(prop)
    except Exception as e:   # noqa
        print("HARNESS-ERROR cannot load check %s: %s: %s" % (prop, type(e).__name__, e))
        traceback.print_exc()
        return 2
    if args.replay:
        return replay(prop, args.replay)
    timeout = getattr(check, "CASE_TIMEOUT", {"quick": 20, "thorough": 60})[tier]
    if args.digests is not None:
        print(json.dumps(digests_for(prop, verif_seed, tier, args.digests, timeout), sort_keys=True))
        return 0

    t_start = time.time()
    # quick: the fixed run-index range [0, RUNS) decides what is explored, so that the same VERIF_SEED explores the same
    # cases on every machine (the budget is only a safety cap, sized several times the expected wall time);
    # thorough: as many runs as fit in the budget.
    # Both tiers explore a FIXED run-index range, so that what a VERIF_SEED explores does not depend on the machine:
    # quick = [0, RUNS.quick); thorough = [0, THOROUGH_FACTOR x RUNS.quick) generated with the wider thorough-tier bounds.
    # The budget is only a safety cap (evidence says whether the planned range was completed).
    runs_tbl = getattr(check, "RUNS", {"quick": 4000})
    planned = runs_tbl["quick"] if tier == "quick" else getattr(check, "THOROUGH_RUNS", THOROUGH_FACTOR * runs_tbl["quick"])
    budget = args.budget or (getattr(check, "BUDGET", {"quick": 300})["quick"] if tier == "quick" else THOROUGH_BUDGET)
    max_runs = args.runs or planned
    chunk = getattr(check, "CHUNK", 8)
    findings = load_findings()

    # --- known-finding witnesses first: still failing -> KNOWN-FINDING line; fixed entries must pass
    known_lines = []
    stale = []
    regression = []
    for f in findings:
        if f["property"] != prop:
            continue
        wpath = os.path.join(VERIF, f["witness"]) if f.get("witness") else None
        if not wpath or not os.path.exists(wpath):
            continue
        with open(wpath) as fh:
            doc = json.load(fh)
        res = exec_case_isolated(check, doc["case"], 120)
        fails = res["outcome"] == "violation" and finding_matches(f, res.get("signature"))
        if f["status"] == "known":
            if fails:
                known_lines.append("KNOWN-FINDING: property=%s %s [%s]" % (prop, f["description"], f["id"]))
            else:
                stale.append(f["id"])
        elif f["status"] == "fixed":
            if res["outcome"] == "violation":
                regression.append((f, doc, res))

    ctx = multiprocessing.get_context("fork")
    results = {}
    kept_cases = {}
    nsub = 0
    harness_errors = []
    with cf.ProcessPoolExecutor(max_workers=args.workers, mp_context=ctx) as ex:
        pending = set()
        next_i = 0

        def submit():
            nonlocal next_i, nsub
            idx = list(range(next_i, min(max_runs, next_i + chunk)))
            next_i += len(idx)
            if idx:
                pending.add(ex.submit(_worker, (prop, verif_seed, tier, idx, timeout)))
                nsub += len(idx)
        for _ in range(args.workers * 2):
            submit()
        hard_deadline = t_start + budget + chunk * timeout + 60
        while pending:
            done, pending = cf.wait(pending, timeout=5, return_when=cf.FIRST_COMPLETED)
            if not done and time.time() > hard_deadline:
                # a worker is stuck where no Python-level alarm can reach it (C code of an engine): never a pass
                harness_errors.append("worker hung beyond the hard deadline; pool killed (%d chunks lost)" % len(pending))
                for proc in list(getattr(ex, "_processes", {}).values()):
                    try:
                        proc.kill()
                    except Exception:
                        pass
                pending = set()
                break
            for fut in done:
                try:
                    for i, case, res in fut.result():
                        results[i] = res
                        if case is not None:
                            kept_cases[i] = case
                except Exception as e:
                    codes = sorted(set(str(p_.exitcode) for p_ in list(getattr(ex, "_processes", {}).values()) if p_.exitcode not in (None, 0)))
                    harness_errors.append("worker died: %r (exit codes of dead workers: %s)" % (e, ",".join(codes) or "?"))
                if time.time() - t_start < budget and next_i < max_runs:
                    submit()
    sample_wall = time.time() - t_start

    # --- classify
    agg = {"ok": 0, "skip": 0, "violation": 0, "harness-error": 0, "known": 0}
    skip_hist = {}
    counters = {}
    fault_fired = {}
    distinct = set()
    nontrivial = 0
    violations = {}     # signature -> [indices]
    for i in sorted(results):
        r = results[i]
        o = r["outcome"]
        if o == "violation":
            violations.setdefault(r["signature"], []).append(i)
        elif o == "harness-error":
            harness_errors.append("run %d: %s" % (i, r.get("reason")))
        elif o == "skip":
            skip_hist[r.get("reason", "?")] = skip_hist.get(r.get("reason", "?"), 0) + 1
        agg[o] = agg.get(o, 0) + 1
        for k, v in (r.get("counters") or {}).items():
            counters[k] = counters.get(k, 0) + v
        for k, v in (r.get("faults") or {}).items():
            fault_fired[k] = fault_fired.get(k, 0) + v
        if r.get("nontrivial"):
            nontrivial += 1
            distinct.add(r.get("key"))

    new_violations = []
    known_seen = {}
    for sig, idxs in sorted(violations.items()):
        f = match_finding(findings, prop, sig)
        if f is not None:
            known_seen[f["id"]] = len(idxs)
            agg["known"] += len(idxs)
            agg["violation"] -= len(idxs)
            continue
        new_violations.append((sig, idxs))

    exit_code = 0
    out_lines = []
    for f, doc, res in regression:
        path = write_replay(prop, verif_seed, doc["case"], res, True, "regression-" + f["id"])
        out_lines.append("VIOLATION property=%s replay=%s" % (prop, path))
        out_lines.append("  fixed finding %s has returned: %s" % (f["id"], res.get("signature")))
        exit_code = 1
    for sig, idxs in new_violations[:6]:
        i = idxs[0]
        case = kept_cases[i]
        res = results[i]
        mcase, mruns = minimise(check, case, sig)
        mres = exec_case_isolated(check, mcase, 120) if mruns else res
        if not (mres["outcome"] == "violation" and mres.get("signature") == sig):
            mcase, mres = case, exec_case_isolated(check, case, 120)
        path = write_replay(prop, verif_seed, mcase, mres, mruns > 0, i)
        # replay in a fresh interpreter must reproduce exactly
        rc = subprocess.run([sys.executable, "-m", "sim.runner", prop, "--replay", path], cwd=VERIF,
                            env=dict(os.environ, PYTHONHASHSEED="12345", PYTHONPATH=_pythonpath()), capture_output=True, text=True)
        out_lines.append("VIOLATION property=%s replay=%s" % (prop, path))
        out_lines.append("  signature: %s  (%d runs; first run index %d; minimised in %d re-runs; fresh replay rc=%d)" % (sig, len(idxs), i, mruns, rc.returncode))
        out_lines.append("  " + str(mres.get("detail"))[:1200])
        exit_code = 1
    for sig, idxs in new_violations[6:]:
        out_lines.append("  also: %s (%d runs, first run index %d) %s" % (sig, len(idxs), idxs[0], str(results[idxs[0]].get("detail"))[:300]))

    # --- determinism self-test on the first runs, in a fresh interpreter under another hash seed
    selftest = None
    if not args.no_selftest:
        n = getattr(check, "SELFTEST_RUNS", 12)
        try:
            p = subprocess.run([sys.executable, "-m", "sim.runner", prop, "--tier", tier, "--digests", str(n)], cwd=VERIF,
                               env=dict(os.environ, PYTHONHASHSEED="12345", PYTHONPATH=_pythonpath(), VERIF_SEED=verif_seed),
                               capture_output=True, text=True, timeout=600)
            other = json.loads(p.stdout.strip().splitlines()[-1])
            mine = {}
            for i in range(n):
                r = results.get(i)
                if r is None:
                    continue
                mine[str(i)] = "skip" if (r["outcome"] == "skip" and r.get("reason") == "generator-none") else ("wall-timeout" if r.get("timing") else "%s:%s" % (r["outcome"], r.get("digest") or r.get("reason")))
            diff = [i for i in mine if other.get(i) != mine[i] and "wall-timeout" not in (mine[i] + str(other.get(i)))]
            selftest = {"runs_compared": len(mine), "mismatches": diff, "other_hashseed": 12345}
            if diff:
                harness_errors.append("determinism self-test mismatch at runs %s" % diff)
        except Exception as e:
            harness_errors.append("determinism self-test failed to run: %r" % (e,))

    n_missing = sum(v for k, v in skip_hist.items() if k.startswith("instrumentation-missing"))
    inconclusive_note = None
    if n_missing:
        inconclusive_note = ("NOTE: %d of %d runs could not be judged because the harness did not find a private name of the "
                             "library it instruments (%s); those runs are skips, not passes" % (
                                 n_missing, len(results), sorted(k for k in skip_hist if k.startswith("instrumentation-missing"))[:3]))
    n_timeouts = skip_hist.get("wall-timeout", 0)
    total = len(results)
    if total and n_timeouts > max(5, 0.1 * total):
        harness_errors.append("too many wall-timeouts: %d of %d" % (n_timeouts, total))
    if total == 0:
        harness_errors.append("no runs executed")

    wall = time.time() - t_start
    # --- evidence
    samples = []
    for i in sorted(kept_cases)[:3]:
        r = results[i]
        samples.append({"run_index": i, "case": _trim(kept_cases[i]), "outcome": r["outcome"],
                        "summary": r.get("summary"), "digest": r.get("digest"), "first_events": r.get("first_events")})
    ev = {
        "property_id": prop, "tier": tier, "seed": int(verif_seed), "level": getattr(check, "LEVEL", "exploration"),
        "coverage": {
            "evaluations": total,
            "distinct_nontrivial": len(distinct),
            "rule": getattr(check, "RULE", ""),
            "samples": samples,
            "outcomes": agg, "skip_histogram": skip_hist,
            "nontrivial_runs": nontrivial,
            "runs_per_hour": int(total / max(sample_wall, 1e-6) * 3600),
            "seeds": {"VERIF_SEED": int(verif_seed), "run_index_range": [0, max(results) if results else -1],
                      "planned_runs": max_runs, "planned_range_completed": nsub >= max_runs},
            "fault_kinds_fired": fault_fired,
            "counters": counters,
            "known_findings_seen": known_seen,
            "instrumentation_missing_runs": n_missing,
            "stale_known_findings": stale,
            "components_real": COMPONENTS_REAL, "components_stub": COMPONENTS_STUB,
            "determinism_selftest": selftest,
            "workers": args.workers,
        },
        "assumptions": getattr(check, "ASSUMPTIONS", []),
        "wall_s": round(wall, 2),
        "violations": len(new_violations) + len(regression),
    }
    if hasattr(check, "extra_evidence"):
        ev["coverage"].update(check.extra_evidence(results))
    if not args.no_evidence:
        os.makedirs(os.path.join(VERIF, "evidence"), exist_ok=True)
        with open(os.path.join(VERIF, "evidence", "%s.json" % prop), "w") as f:
            json.dump(ev, f, indent=1, sort_keys=True, default=str)

    print("%s tier=%s seed=%s runs=%d ok=%d skip=%d known=%d violations=%d harness_errors=%d distinct_nontrivial=%d wall=%.1fs" % (
        prop, tier, verif_seed, total, agg["ok"], agg["skip"], agg["known"], len(new_violations), len(harness_errors), len(distinct), wall))
    if os.environ.get("VERIF_COUNTERS"):
        print("faults fired:", json.dumps(fault_fired, sort_keys=True))
        print("counters:", json.dumps({k: v for k, v in counters.items() if not k.startswith("fault@")}, sort_keys=True))
        print("skips:", json.dumps(skip_hist, sort_keys=True))
    if inconclusive_note:
        print(inconclusive_note)
    for l in known_lines:
        print(l)
    for fid in stale:
        print("note: known finding %s no longer reproduces on this tree (stale entry, nothing suppressed)" % fid)
    for l in out_lines:
        print(l)
    if harness_errors:
        for h in harness_errors[:10]:
            print("HARNESS-ERROR %s" % h)
        for i in sorted(results):
            if results[i]["outcome"] == "harness-error" and results[i].get("trace"):
                print(results[i]["trace"])
                break
        if exit_code == 0:
            exit_code = 2
    return exit_code


def _trim(case, limit=6000):
    s = json.dumps(case, default=str)
    if len(s) <= limit:
        return case
    return {"truncated": s[:limit]}


if __name__ == "__main__":
    sys.exit(main())
