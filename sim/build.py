"""AST -> real sweetpea objects, through the public constructors only."""
import math

import sweetpea as sp
from sweetpea import (Factor, Level, DerivedLevel, ElseLevel, WithinTrial, Transition, Window,
                      CrossBlock, MultiCrossBlock, Repeat, Merge, Nest, RepeatMode, AlignmentMode,
                      Exclude, Pin, MinimumTrials, ExactlyK, AtMostKInARow, AtLeastKInARow, ExactlyKInARow,
                      LatinSquare, Sequential)

from . import dast

MODES = {"weight": RepeatMode.WEIGHT, "repeat": RepeatMode.REPEAT, "equal": RepeatMode.EQUAL}
ALIGNS = {"post preamble": AlignmentMode.POST_PREAMBLE, "parallel start": AlignmentMode.PARALLEL_START,
          "equal preamble": AlignmentMode.EQUAL_PREAMBLE}


def make_predicate(width, table):
    table = frozenset(table)
    if width == 1:
        def pred(*args):
            return tuple(args) in table
    else:
        rng = range(-(width - 1), 1)

        def pred(*args):
            return tuple(tuple(a[i] for i in rng) for a in args) in table
    return pred


def _norm_row(row, width):
    if width == 1:
        return tuple(row)
    return tuple(tuple(r) for r in row)


class Builder:
    """One Builder = one pool of Python objects.  A factor / constraint AST node (by id) maps to one
    Python object per pool; a fresh pool gives fresh objects (the C18 twin)."""

    def __init__(self, ast, enum_spelling=True, continuous_env=None):
        self.ast = ast
        self.fb = dast.factors_by_id(ast)
        self.fobj = {}
        self.cobj = {}
        self.bobj = {}       # block AST nodes that carry a "bid" map to one Python block object per pool (shared operands)
        self.enum_spelling = enum_spelling
        self.continuous_env = continuous_env   # see sim.contin
        # one ElseLevel object reused by every derived factor whose else level has the same name and weight
        # (`other = ElseLevel("other")` written once by a user), in half of the designs (a pure function of the AST)
        self.share_else = sum(len(f.get("levels", ())) for f in ast["factors"]) % 2 == 0
        self.else_obj = {}

    def factor(self, fid):
        if fid in self.fobj:
            return self.fobj[fid]
        f = self.fb[fid]
        if f["kind"] == "basic":
            obj = Factor(f["name"], [Level(n, w) if w != 1 else n for n, w in f["levels"]])
        elif f["kind"] == "derived":
            w = f["window"]
            args = [self.factor(a) for a in f["args"]]
            levels = []
            for l in f["levels"]:
                if l.get("else"):
                    key = (l["name"], l.get("weight", 1))
                    if not self.share_else:
                        levels.append(ElseLevel(*key))
                    else:
                        if key not in self.else_obj:
                            self.else_obj[key] = ElseLevel(*key)
                        levels.append(self.else_obj[key])
                    continue
                pred = make_predicate(w["width"], [_norm_row(r, w["width"]) for r in l["table"]])
                if w["kind"] == "within":
                    win = WithinTrial(pred, args)
                elif w["kind"] == "transition":
                    win = Transition(pred, args)
                else:
                    win = Window(pred, args, w["width"], w["stride"], w["start"])
                levels.append(DerivedLevel(l["name"], win, l.get("weight", 1)))
            obj = Factor(f["name"], levels)
        else:
            from . import contin
            obj = contin.build_continuous(self, f)
        self.fobj[fid] = obj
        return obj

    def _target(self, c):
        t = c["target"]
        f = self.factor(t[0])
        if len(t) == 1:
            return f
        sp_ = c.get("spelling", "tuple")
        if sp_ == "level":
            return f.get_level(t[1])
        if sp_ == "tuple_level":
            return (f, f.get_level(t[1]))
        return (f, t[1])

    def constraint(self, c, shared=True):
        cid = c.get("id")
        if shared and cid is not None and cid in self.cobj:
            return self.cobj[cid]
        k = c["kind"]
        if k == "exclude":
            obj = Exclude(self._target(c))
        elif k == "pin":
            obj = Pin(c["index"], self._target(c))
        elif k == "mintrials":
            obj = MinimumTrials(c["n"])
        elif k == "atmost":
            obj = AtMostKInARow(c["k"], self._target(c))
        elif k == "atleast":
            obj = AtLeastKInARow(c["k"], self._target(c))
        elif k == "exactlyrow":
            obj = ExactlyKInARow(c["k"], self._target(c))
        elif k == "exactlyk":
            obj = ExactlyK(c["k"], self._target(c))
        elif k == "sequential":
            obj = Sequential(self.factor(c["factor"]))
        elif k == "latinsquare":
            if c.get("name"):
                obj = LatinSquare([self.factor(x) for x in c["factors"]], c["name"])
            else:
                obj = LatinSquare([self.factor(x) for x in c["factors"]])
        elif k == "ccons":
            from . import contin
            obj = contin.build_ccons(self, c)
        else:
            raise ValueError(k)
        if shared and cid is not None:
            self.cobj[cid] = obj
        return obj

    def _mode(self, m):
        if m is None:
            return None
        return MODES[m] if self.enum_spelling else m

    def _align(self, a):
        if a is None:
            return None
        return ALIGNS[a] if self.enum_spelling else a

    def block(self, b):
        bid = b.get("bid")
        if bid is not None:
            if bid not in self.bobj:
                self.bobj[bid] = self._block(b)
            return self.bobj[bid]
        return self._block(b)

    def _block(self, b):
        k = b["kind"]
        cs = [self.constraint(c) for c in b.get("constraints", [])]
        if k == "cross":
            return CrossBlock([self.factor(i) for i in b["design"]], [self.factor(i) for i in b["crossing"]], cs,
                              b.get("rcc", True))
        if k == "multicross":
            kw = {}
            if b.get("mode") is not None:
                kw["mode"] = self._mode(b["mode"])
            if b.get("alignment") is not None:
                kw["alignment"] = self._align(b["alignment"])
            return MultiCrossBlock([self.factor(i) for i in b["design"]],
                                   [[self.factor(i) for i in c] for c in b["crossings"]], cs,
                                   b.get("rcc", True), **kw)
        # an empty constraint list is not passed at all, the way users write Merge([b1, b2]) / Nest(o, i):
        # the constructor then works on its default argument
        if k == "repeat":
            return Repeat(self.block(b["block"]), cs)        # Repeat has no default for its constraints
        if k == "merge":
            kw = {}
            if b.get("mode") is not None:
                kw["mode"] = self._mode(b["mode"])
            if b.get("alignment") is not None:
                kw["alignment"] = self._align(b["alignment"])
            if cs:
                kw["constraints"] = cs
            return Merge([self.block(x) for x in b["blocks"]], **kw)
        if k == "nest":
            kw = {}
            if b.get("alignment") is not None:
                kw["alignment"] = self._align(b["alignment"])
            if cs:
                kw["constraints"] = cs
            return Nest(self.block(b["outer"]), self.block(b["inner"]), **kw)
        raise ValueError(k)


def build_block(ast, **kw):
    b = Builder(ast, **kw)
    return b.block(ast["block"]), b
