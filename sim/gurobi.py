"""FakeGurobi: stands in for the `gurobipy` module (DESIGN.md S3).  Parses each round's OPB text from SimFS with the
harness' own pseudo-Boolean reader and returns a model chosen by the world's peer policy.  Trusted base: this reading of
the OPB format (linear constraints over vN with +-1 coefficients, relations >=, <=, =, terminated by ';')."""
import re
import sys
import types

import pycryptosat as _real_pycryptosat

from .world import HarnessCap, _sha1


def parse_opb(text):
    """Returns list of (terms [(coef, var)], rel, rhs).  Raises ValueError on text it cannot read."""
    cons = []
    for chunk in text.split(";"):
        s = chunk.strip()
        if not s or s.startswith("*"):
            continue
        toks = s.split()
        terms = []
        i = 0
        while i < len(toks) and toks[i] not in (">=", "<=", "="):
            coef = int(toks[i])
            var = toks[i + 1]
            if not re.fullmatch(r"v\d+", var):
                raise ValueError("bad variable token %r" % var)
            terms.append((coef, int(var[1:])))
            i += 2
        if i >= len(toks) - 1:
            raise ValueError("constraint without relation/rhs: %r" % s[:60])
        rel = toks[i]
        rhs = int(toks[i + 1])
        if len(toks) != i + 2:
            raise ValueError("trailing tokens in %r" % s[:60])
        cons.append((terms, rel, rhs))
    return cons


def eval_pb(cons, assignment):
    """assignment: {var: bool}.  True iff every constraint holds."""
    for terms, rel, rhs in cons:
        v = sum(c * (1 if assignment[x] else 0) for c, x in terms)
        if rel == ">=" and not v >= rhs:
            return False
        if rel == "<=" and not v <= rhs:
            return False
        if rel == "=" and not v == rhs:
            return False
    return True


class _Enc:
    """Independent CNF encoding of +-1 pseudo-Boolean constraints (sequential counters)."""

    def __init__(self, nvars):
        self.n = nvars
        self.clauses = []

    def fresh(self):
        self.n += 1
        return self.n

    def counter(self, lits):
        """s[j] (1-based j) <-> at least j of lits are true; returns list s[1..len]."""
        prev = []
        for x in lits:
            cur = []
            for j in range(1, len(prev) + 2):
                v = self.fresh()
                a = prev[j - 1] if j - 1 < len(prev) else None      # at least j before
                b = prev[j - 2] if j >= 2 else True                   # at least j-1 before
                # v <-> a or (b and x)
                opts = []
                if a is not None:
                    self.clauses.append([-a, v])
                if b is True:
                    self.clauses.append([-x, v])
                    self.clauses.append([-v, x] + ([a] if a is not None else []))
                else:
                    self.clauses.append([-b, -x, v])
                    self.clauses.append([-v, b] + ([a] if a is not None else []))
                    self.clauses.append([-v, x] + ([a] if a is not None else []))
                cur.append(v)
            prev = cur
        return prev

    def add(self, terms, rel, rhs):
        lits = []
        shift = 0
        for c, x in terms:
            if c == 1:
                lits.append(x)
            elif c == -1:
                lits.append(-x)
                shift += 1
            else:
                raise ValueError("coefficient %r" % c)
        k = rhs + shift      # sum(lits true) rel k
        n = len(lits)
        s = self.counter(lits) if lits else []

        def atleast(m):
            if m <= 0:
                return
            if m > n:
                self.clauses.append([])
                return
            self.clauses.append([s[m - 1]])

        def atmost(m):
            if m >= n:
                return
            if m < 0:
                self.clauses.append([])
                return
            self.clauses.append([-s[m]])
        if rel == ">=":
            atleast(k)
        elif rel == "<=":
            atmost(k)
        else:
            atleast(k)
            atmost(k)


class FakeVar:
    def __init__(self, name, x):
        self.VarName = name
        self.X = x


class FakeModel:
    def __init__(self, world, name, text):
        self.world = world
        self.name = name
        self.text = text
        self.Status = 1
        self._vars = []

    def optimize(self):
        w = self.world
        w.count("peer.solve")
        if w.peer_calls_cap is not None and w.counters["peer.solve"] > w.peer_calls_cap:
            raise HarnessCap("peer call cap exceeded")
        cons = parse_opb(self.text)
        order = []
        seen = set()
        for terms, _, _ in cons:
            for _, x in terms:
                if x not in seen:
                    seen.add(x)
                    order.append(x)
        nv = max(order) if order else 0
        enc = _Enc(nv)
        for terms, rel, rhs in cons:
            enc.add(terms, rel, rhs)
        if any(len(c) == 0 for c in enc.clauses):
            model = None
        else:
            model = w.peer.solve(enc.clauses, nv)
            w.counters["peer.solve"] -= 1
        w.opb_rounds.append((self.text, cons, None if model is None else {x: bool(model[x]) for x in order}))
        if model is None:
            self.Status = 3
            w.log.append(("peer.solve", "gurobi", len(cons), "INFEASIBLE"))
            return
        self.Status = 2
        self._vars = [FakeVar("v%d" % x, 1.0 if model[x] else 0.0) for x in order]
        w.log.append(("peer.solve", "gurobi", len(cons), _sha1(repr([(v.VarName, v.X) for v in self._vars]))))

    def getVars(self):
        return list(self._vars)


class FakeEnv:
    def __init__(self, empty=False):
        self.params = {}

    def setParam(self, k, v):
        self.params[k] = v

    def start(self):
        pass

    def __enter__(self):
        return self

    def __exit__(self, *a):
        return False


def install(world):
    mod = types.ModuleType("gurobipy")
    world.opb_rounds = []

    def read(name, env=None):
        text = world.fs.read(str(name))
        return FakeModel(world, str(name), text)
    mod.Env = FakeEnv
    mod.read = read
    mod.GRB = types.SimpleNamespace(OPTIMAL=2, INFEASIBLE=3)
    world._saved_gurobi = sys.modules.get("gurobipy")
    sys.modules["gurobipy"] = mod


def uninstall(world):
    if getattr(world, "_saved_gurobi", None) is None:
        sys.modules.pop("gurobipy", None)
    else:
        sys.modules["gurobipy"] = world._saved_gurobi
