"""Continuous factors: AST -> library objects, and the reference evaluation (R-CONT / B.9).

dist := {"kind": "uniform", "lo", "hi"} | {"kind": "gauss", "mu", "sigma"} | {"kind": "exp", "rate"}
      | {"kind": "lognormal", "mu", "sigma"}
      | {"kind": "custom", "base": float, "deps": [dep...], "cumulative": bool, "noise": [lo, hi] | None}
dep  := {"factor": fid, "coef": float, "map": {level: number} (discrete only)}
      | {"window": {"factors": [fid...], "width", "stride", "start"}, "weights": [w_0, w_-1, ...], "coef": float}
custom value = base + sum_i coef_i * v_i (+ uniform noise drawn through the scripted PRNG when "noise" is set)
   v_i: discrete dep -> map[level name]; continuous dep -> same-trial value;
        window dep -> sum over factors f and k in 0..width-1 of weights[k] * x_f[t-k]   (NaN anywhere -> NaN)
ccons := {"kind": "ccons", "factors": [fid...], "pred": {"op": "sum_lt" | "sum_gt" | "first_lt_second", "c": float}}
"""
import math

from sweetpea import (ContinuousFactor, ContinuousFactorWindow, CustomDistribution, UniformDistribution,
                      GaussianDistribution, ExponentialDistribution, LogNormalDistribution)
from sweetpea._internal.constraint import ContinuousConstraint


def _nan(x):
    return isinstance(x, float) and math.isnan(x)


def custom_value(dist, vals, noise=0.0):
    """vals: one entry per dep, already reduced to numbers (window deps: list of dicts or dict)."""
    total = dist.get("base", 0.0) + noise
    for dep, v in zip(dist["deps"], vals):
        if "window" in dep:
            ws = dep["weights"]
            dicts = v if isinstance(v, list) else [v]
            acc = 0.0
            for d in dicts:
                for k in range(dep["window"]["width"]):
                    acc += ws[k] * d[-k]
            total += dep["coef"] * acc
        elif "map" in dep:
            total += dep["coef"] * dep["map"][v]
        else:
            total += dep["coef"] * v
    return total


def build_continuous(builder, f):
    d = f["dist"]
    k = d["kind"]
    if k == "uniform":
        return ContinuousFactor(f["name"], distribution=UniformDistribution(d["lo"], d["hi"]))
    if k == "gauss":
        return ContinuousFactor(f["name"], distribution=GaussianDistribution(d["mu"], d["sigma"]))
    if k == "exp":
        return ContinuousFactor(f["name"], distribution=ExponentialDistribution(d["rate"]))
    if k == "lognormal":
        return ContinuousFactor(f["name"], distribution=LogNormalDistribution(d["mu"], d["sigma"]))
    deps = []
    for dep in d["deps"]:
        if "window" in dep:
            w = dep["window"]
            deps.append(ContinuousFactorWindow([builder.factor(x) for x in w["factors"]], w["width"], w["stride"], w["start"]))
        else:
            deps.append(builder.factor(dep["factor"]))
    env = builder.continuous_env

    def func(*vals):
        noise = 0.0
        if d.get("noise"):
            noise = env.rng.uniform(d["noise"][0], d["noise"][1]) if env is not None else 0.0
        if env is not None:
            env.count("custom.call")
        return custom_value(d, list(vals), noise)
    if deps:
        dist = CustomDistribution(func, deps, cumulative=bool(d.get("cumulative")))
    else:
        dist = CustomDistribution(func, cumulative=bool(d.get("cumulative")))
    return ContinuousFactor(f["name"], distribution=dist)


def make_pred(p, n):
    op, c = p["op"], p.get("c", 0.0)
    if n == 1:
        if op == "sum_gt":
            return lambda a: bool(a > c)
        return lambda a: bool(a < c)
    if op == "sum_gt":
        return lambda a, b: bool(a + b > c)
    if op == "first_lt_second":
        return lambda a, b: bool(a < b)
    return lambda a, b: bool(a + b < c)


def eval_pred(p, vals):
    return make_pred(p, len(vals))(*vals)


def build_ccons(builder, c):
    fs = [builder.factor(x) for x in c["factors"]]
    return ContinuousConstraint(fs, make_pred(c["pred"], len(fs)))


# ---------------------------------------------------------------------------
# reference evaluation (B.9)


def window_arg(dep, seq_by_id, t):
    """What the documentation says a ContinuousFactorWindow hands to the function at trial t."""
    w = dep["window"]
    width, stride = w["width"], w["stride"]
    start = width - 1 if w["start"] is None else w["start"]
    out = []
    for fid in w["factors"]:
        col = seq_by_id[fid]
        d = {}
        applies = t >= start and (t - start) % stride == 0
        for k in range(width):
            if not applies or t - k < 0:
                d[-k] = float("nan")
            else:
                d[-k] = col[t - k]
        out.append(d)
    return out[0] if len(out) == 1 else out


def expected_dependent(f, seq_by_id, names_by_id, T):
    """Recompute a noise-free custom factor from the returned sequence.  Returns list of T values."""
    d = f["dist"]
    vals = []
    acc = 0.0
    for t in range(T):
        args = []
        for dep in d["deps"]:
            if "window" in dep:
                args.append(window_arg(dep, seq_by_id, t))
            else:
                args.append(seq_by_id[dep["factor"]][t])
        v = custom_value(d, args, 0.0)
        if d.get("cumulative"):
            acc += v
            v = acc
        vals.append(v)
    return vals


def same(a, b, tol=1e-9):
    if _nan(a) and _nan(b):
        return True
    if _nan(a) or _nan(b):
        return False
    return abs(a - b) <= tol * max(1.0, abs(a), abs(b))
