"""Small maintenance commands:
  python -m sim.tools witness PROP RUN_INDEX OUT_PATH SIGNATURE [VERIF_SEED] [TIER]
  python -m sim.tools one PROP RUN_INDEX [VERIF_SEED] [TIER]      run one run index and print its case and result
  python -m sim.tools mini PROP RUN_INDEX OUT_PATH [VERIF_SEED] [TIER]   minimise a violating run and write a replay file
"""
import json
import sys

from . import runner


def witness(prop, index, out, signature, verif_seed="0", tier="quick"):
    check = runner.load_check(prop)
    rs = runner.run_seed(verif_seed, prop, int(index))
    case = check.gen_case(rs, tier)
    case["run_index"] = int(index)
    case["run_seed"] = rs
    res = runner.exec_case(check, case, 120)
    doc = {"property": prop, "verif_seed": verif_seed, "run_index": int(index),
           "violation": {"signature": signature, "detail": res.get("detail"), "observed_when_written": res.get("signature")},
           "case": case, "event_digest": None, "minimised": False}
    with open(out, "w") as f:
        json.dump(doc, f, indent=1, sort_keys=True, default=str)
    print("wrote", out, "outcome now:", res["outcome"], res.get("signature"))


def one(prop, index, verif_seed="0", tier="quick"):
    check = runner.load_check(prop)
    rs = runner.run_seed(verif_seed, prop, int(index))
    case = check.gen_case(rs, tier)
    case["run_index"] = int(index)
    case["run_seed"] = rs
    res = runner.exec_case(check, case, 120)
    print(json.dumps({"case": case, "result": res}, indent=1, sort_keys=True, default=str))


def mini(prop, index, out, verif_seed="0", tier="quick"):
    check = runner.load_check(prop)
    rs = runner.run_seed(verif_seed, prop, int(index))
    case = check.gen_case(rs, tier)
    case["run_index"] = int(index)
    case["run_seed"] = rs
    res = runner.exec_case(check, case, 120)
    if res["outcome"] != "violation":
        print("not a violation:", res["outcome"], res.get("reason"))
        return
    mcase, n = runner.minimise(check, case, res["signature"], budget_runs=400, budget_s=300)
    mres = runner.exec_case(check, mcase, 120)
    doc = {"property": prop, "verif_seed": verif_seed, "run_index": int(index),
           "violation": {"class": mres.get("class"), "signature": mres.get("signature"), "detail": mres.get("detail")},
           "case": mcase, "event_digest": mres.get("digest"), "minimised": n > 0}
    with open(out, "w") as f:
        json.dump(doc, f, indent=1, sort_keys=True, default=str)
    print("wrote", out, "after", n, "re-runs:", mres.get("signature"))
    print(mres.get("detail"))


if __name__ == "__main__":
    if sys.argv[1] == "witness":
        witness(*sys.argv[2:])
    elif sys.argv[1] == "one":
        one(*sys.argv[2:])
    elif sys.argv[1] == "mini":
        mini(*sys.argv[2:])
    elif sys.argv[1] == "design":
        # python -m sim.tools design PROP DESIGN.json [VERIF_SEED]: run the check's oracle on a hand-written design AST
        prop, path = sys.argv[2], sys.argv[3]
        seed = sys.argv[4] if len(sys.argv) > 4 else "0"
        check = runner.load_check(prop)
        i = 0
        while True:
            rs = runner.run_seed(seed, prop, i)
            case = check.gen_case(rs, "quick")
            if case is not None and "design" in case:
                break
            i += 1
        case["design"] = json.load(open(path))
        case["faults"] = []
        case["sweep"] = False
        case["run_index"], case["run_seed"] = i, rs
        res = runner.exec_case(check, case, 120)
        print(json.dumps({k: v for k, v in res.items() if k in ("outcome", "reason", "signature", "detail", "summary")}, indent=1, default=str)[:3000])
