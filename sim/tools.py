"""Small maintenance commands:  python -m sim.tools witness PROP RUN_INDEX OUT_PATH SIGNATURE [VERIF_SEED] [TIER]"""
import json
import sys

from . import runner


def witness(prop, index, out, signature, verif_seed="0", tier="quick"):
    check = runner.load_check(prop)
    rs = runner.run_seed(verif_seed, prop, int(index))
    case = check.gen_case(rs, tier)
    case["run_index"] = int(index)
    case["run_seed"] = rs
    res = runner.exec_case(check, case, 120)
    doc = {"property": prop, "verif_seed": verif_seed, "run_index": int(index),
           "violation": {"signature": signature, "detail": res.get("detail"), "observed_when_written": res.get("signature")},
           "case": case, "event_digest": None, "minimised": False}
    with open(out, "w") as f:
        json.dump(doc, f, indent=1, sort_keys=True, default=str)
    print("wrote", out, "outcome now:", res["outcome"], res.get("signature"))


if __name__ == "__main__":
    if sys.argv[1] == "witness":
        witness(*sys.argv[2:])
