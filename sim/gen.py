"""Seeded generator of design ASTs (DESIGN.md section 4.2).  Pure function of the random.Random it is given."""
import itertools

from . import dast, refsem

FOCI = ["exclude-crossed-derived", "preamble-in-crossing", "exclude+preamble", "implied-early-window", "weighted-exclusion",
        "leftover", "parallel-start", "derived-of-derived-crossed", "window-over-window"]
LEVEL_POOL = ["x", "y", "z", "w"]
FACTOR_NAMES = ["A", "B", "C", "E"]


def swarm(rng, tier="quick"):
    """Per-run feature switches (swarm testing): which features are enabled at all."""
    thorough = tier == "thorough"
    cfg = {
        "max_basic": rng.choice([1, 2, 2, 3] + ([3, 4] if thorough else [])),
        "max_levels": rng.choice([2, 2, 3] + ([3, 4] if thorough else [])),
        "weights": rng.random() < 0.3,
        "max_weight": 3 if thorough else 2,
        "derived": rng.choice([0, 0, 1, 1, 2] + ([2, 3] if thorough else [])),
        "win_within": rng.random() < 0.8,
        "win_transition": rng.random() < 0.6,
        "win_window": rng.random() < 0.5,
        "else_level": rng.random() < 0.33,
        "bad_tables": rng.random() < 0.08,
        "nested_derived": rng.random() < 0.2,
        "cross_derived": rng.random() < 0.5,
        "empty_crossing": rng.random() < 0.04,
        "n_constraints": rng.choice([0, 1, 1, 2, 2, 3] + ([3, 4] if thorough else [])),
        "kinds": [k for k in dast.ALL_CONSTRAINT_KINDS if rng.random() < 0.55],
        "big_k": rng.random() < 0.25,
        "rcc_false": rng.random() < 0.3,
        "shared_names": rng.random() < 0.5,
        "derived_targets": rng.random() < 0.5,
        "max_T": 10 if thorough else 8,
        "max_cross": 8 if thorough else 6,
        # block combinators are part of "every design the constructors accept" for every sampler-visible property
        "combinators": rng.random() < 0.3,
        # conjunction boosting: a uniformly random design almost never carries three or four specific features at once
        # (an Exclude on a crossed derived level AND a preamble trial, a weighted crossing AND a leftover run ...), yet
        # that is where the defects found so far live.  Four runs in ten pick one focus, which forces such a conjunction.
        "focus": rng.choice([None] * 6 + FOCI),
        # constraint targets prefer crossed and derived factors (uniform choice mostly hits uncrossed basic factors)
        "target_bias": rng.random() < 0.6,
        # half of the runs stay small (few uncrossed factors, short crossings): the exhaustive oracles skip what they
        # cannot enumerate, and a design that is skipped finds nothing
        "small": rng.random() < 0.5,
        "ragged_names": rng.random() < 0.35,
        "numeric_names": rng.choice([None] * 6 + ["int", "int", "float"]),
        "numeric_factor": rng.choice([0, 0, 1]),
    }
    if cfg["small"] and not thorough:
        cfg["max_basic"] = min(cfg["max_basic"], 2)
        cfg["max_cross"] = 4
        cfg["max_T"] = 6
    if not cfg["kinds"]:
        cfg["kinds"] = [rng.choice(dast.ALL_CONSTRAINT_KINDS)]
    return cfg


def _gen_basic(rng, cfg, i, used_names):
    n = rng.randint(2, cfg["max_levels"])
    if cfg.get("numeric_names") and i == cfg.get("numeric_factor", 0):
        # level names need not be strings: numbers are as common (Factor("number", [0, 1, 2])), and 0 / 0.0 are falsy
        names = {"int": [0, 1, 2, 3], "float": [0.0, 0.5, 1.5, 2.5], "mixed": [0, 1.5, 2, 3.5]}[cfg["numeric_names"]][:n]
    elif cfg["shared_names"]:
        names = LEVEL_POOL[:n]
    else:
        names = ["%s%d" % (FACTOR_NAMES[i].lower(), j) for j in range(n)]
        if cfg.get("ragged_names"):
            # level names of different printed lengths (text outputs must not depend on equal-width values)
            names = [nm + "_" + "longer"[:1 + (j * 3 + i * 2) % 6] if (j + i) % 2 == 0 else nm for j, nm in enumerate(names)]
    levels = []
    for nm in names:
        w = 1
        if cfg["weights"] and rng.random() < 0.4:
            w = rng.randint(2, cfg["max_weight"])
        levels.append([nm, w])
    return {"id": "f%d" % i, "kind": "basic", "name": FACTOR_NAMES[i], "levels": levels}


def _gen_window(rng, cfg):
    kinds = [k for k in ("within", "transition", "window") if cfg["win_" + k]]
    if not kinds:
        kinds = ["within"]
    k = rng.choice(kinds)
    if k == "within":
        return {"kind": "within", "width": 1, "stride": 1, "start": None}
    if k == "transition":
        return {"kind": "transition", "width": 2, "stride": 1, "start": 1}
    width = rng.choice([1, 2, 2, 3])
    stride = rng.choice([1, 1, 2])
    start = None
    if rng.random() < 0.5:
        start = rng.randint(0, width + 1)
    if width == 1 and stride == 1 and start in (None, 0):
        start = rng.randint(1, 2)
    return {"kind": "window", "width": width, "stride": stride, "start": start}


def _gen_derived(rng, cfg, factors, j, force_args=None):
    """Returns a derived-factor AST node with tables that are total and unambiguous over the broad universe,
    unless cfg['bad_tables'] asks for a deliberately broken one."""
    win = _gen_window(rng, cfg)
    cands = [f for f in factors if f["kind"] == "basic"]
    if cfg["nested_derived"]:
        cands += [f for f in factors if f["kind"] == "derived" and f["window"]["stride"] == 1]
    nargs = 1 if len(cands) == 1 else rng.choice([1, 2, 2])
    if cfg.get("sm_single_arg_transition") and win["kind"] == "transition":
        nargs = 1
    args = rng.sample(cands, nargs) if force_args is None else list(force_args)
    nlev = rng.choice([2, 2, 3])
    f = {"id": "d%d" % j, "kind": "derived", "name": "D%d" % j, "window": win,
         "args": [a["id"] for a in args],
         "levels": [{"name": "l%d" % i if not cfg["shared_names"] else LEVEL_POOL[i], "weight": 1, "table": []} for i in range(nlev)]}
    if cfg["weights"] and rng.random() < 0.3:
        rng.choice(f["levels"])["weight"] = 2
    F = refsem.build_factors({"factors": factors + [f]})
    fx = F[f["id"]]
    universe = sorted(refsem.key_universe(fx, True), key=repr)
    if len(universe) > 400:
        return None
    rng.shuffle(universe)
    assign = {}
    # make sure every level gets at least one None-free key where possible
    clean = [k for k in universe if "None" not in repr(k)]
    for i in range(nlev):
        if i < len(clean):
            assign[clean[i]] = i
    # structured predicates half the time (equality / dependence on first arg), random otherwise
    mode = rng.choice(["random", "random", "first", "eq"])
    for key in universe:
        if key in assign:
            continue
        if mode == "first":
            flat = repr(key[0])
            assign[key] = sum(map(ord, flat)) % nlev
        elif mode == "eq":
            flat = list(_flat(key))
            assign[key] = 0 if len(set(map(repr, flat))) == 1 else 1 + (sum(map(ord, repr(key))) % max(1, nlev - 1)) if nlev > 1 else 0
        else:
            assign[key] = rng.randrange(nlev)
    for key, i in assign.items():
        f["levels"][i]["table"].append(_row_json(key, win["width"]))
    for l in f["levels"]:
        l["table"].sort(key=repr)
    if cfg["else_level"] and rng.random() < 0.7:
        last = f["levels"][-1]
        f["levels"][-1] = {"name": last["name"], "weight": last["weight"], "else": True}
    if cfg["bad_tables"] and rng.random() < 0.5 and clean:
        tabled = [l for l in f["levels"] if not l.get("else")]
        if rng.random() < 0.5 and len(tabled) >= 2:
            # overlap on a reachable key
            a, b = rng.sample(tabled, 2)
            if a["table"]:
                cl = [r for r in a["table"] if "None" not in repr(r)]
                if cl:
                    b["table"].append(rng.choice(cl))
        elif not any(l.get("else") for l in f["levels"]):
            l = rng.choice(tabled)
            cl = [r for r in l["table"] if "None" not in repr(r)]
            if cl:
                l["table"].remove(rng.choice(cl))
    return f


def _retable(rng, cfg, factors, d):
    """Fresh total tables for derived factor `d` after its window was edited (same levels, same args)."""
    d = dict(d)
    d["levels"] = [{"name": l["name"], "weight": l.get("weight", 1), "table": []} for l in d["levels"]]
    F = refsem.build_factors({"factors": factors + [d]})
    universe = sorted(refsem.key_universe(F[d["id"]], True), key=repr)
    if len(universe) > 400:
        return None
    rng.shuffle(universe)
    nlev = len(d["levels"])
    for n, key in enumerate(universe):
        i = n if n < nlev else rng.randrange(nlev)
        d["levels"][i]["table"].append(_row_json(key, d["window"]["width"]))
    for l in d["levels"]:
        l["table"].sort(key=repr)
    return d


def _flat(key):
    for x in key:
        if isinstance(x, tuple):
            for y in x:
                yield y
        else:
            yield x


def _row_json(key, width):
    if width == 1:
        return list(key)
    return [list(k) for k in key]


def _gen_constraint(rng, cfg, factors, design_ids, crossing_ids, approxT, cid, kinds=None):
    fb = {f["id"]: f for f in factors}
    kind = rng.choice(kinds or cfg["kinds"])
    discrete = [i for i in design_ids if fb[i]["kind"] != "continuous"]
    targets = [i for i in discrete if fb[i]["kind"] == "basic" or cfg["derived_targets"]]
    if not targets:
        targets = discrete
    c = {"id": "c%d" % cid, "kind": kind}
    if kind == "mintrials":
        size = max(1, approxT)
        c["n"] = rng.randint(1, min(cfg["max_T"], 2 * size + 1))
        return c
    if kind == "sequential":
        unweighted = [i for i in discrete if all(w == 1 for w in _weights(fb[i]))]
        basics = [i for i in unweighted if fb[i]["kind"] == "basic"]
        if not basics:
            return None
        c["factor"] = rng.choice(basics)
        return c
    if kind == "latinsquare":
        basics = [i for i in discrete if fb[i]["kind"] == "basic" and all(w == 1 for w in _weights(fb[i]))]
        if len(basics) < 2:
            return None
        n = rng.choice([2, 2, 3]) if len(basics) >= 3 else 2
        c["factors"] = rng.sample(basics, n)
        return c
    if cfg.get("target_bias") and len(targets) > 1:
        weighted = []
        for i in targets:
            wgt = 1 + (2 if i in crossing_ids else 0) + (2 if fb[i]["kind"] == "derived" else 0)
            weighted.extend([i] * wgt)
        fid = rng.choice(weighted)
    else:
        fid = rng.choice(targets)
    f = fb[fid]
    lv = rng.choice([l[0] if f["kind"] == "basic" else l["name"] for l in f["levels"]])
    whole = kind in dast.RUN_KINDS and rng.random() < 0.15
    c["target"] = [fid] if whole else [fid, lv]
    c["spelling"] = "factor" if whole else rng.choice(["tuple", "tuple", "level", "tuple_level"])
    if kind == "pin":
        c["index"] = rng.randint(-approxT - 1, approxT) if cfg["big_k"] else rng.randint(-approxT, approxT - 1)
    elif kind in dast.RUN_KINDS:
        hi = approxT + 2 if cfg["big_k"] else max(1, min(approxT, 3))
        c["k"] = rng.randint(1, hi)
    return c


def sibling_constraint(rng, cons, allowed_kinds=None, p=0.12):
    """With probability p: a second constraint that coincides with an existing run-length/count constraint in everything
    but its kind (same k, same target) - near-duplicates are where equality, de-duplication and caching go wrong."""
    runs = [c for c in cons if c["kind"] in dast.RUN_KINDS]
    if not runs or rng.random() >= p:
        return None
    c = rng.choice(runs)
    kinds = [k for k in dast.RUN_KINDS if k != c["kind"] and (allowed_kinds is None or k in allowed_kinds)]
    if not kinds:
        return None
    s_ = dast.clone(c)
    s_["kind"] = rng.choice(kinds)
    s_["id"] = str(c.get("id", "c")) + "s"
    return s_


def _weights(f):
    if f["kind"] == "basic":
        return [w for _, w in f["levels"]]
    return [l.get("weight", 1) for l in f["levels"]]


def gen_cross_design(rng, cfg, tier="quick", constraint_kinds=None, single=True):
    """A single CrossBlock design.  Returns AST or None (caller counts the skip)."""
    focus = cfg.get("focus")
    if focus == "weighted-exclusion":
        cfg = dict(cfg, weights=True, max_basic=max(2, cfg["max_basic"]))
    nb = rng.randint(2 if focus in ("exclude-crossed-derived", "exclude+preamble", "weighted-exclusion") else 1, max(2, cfg["max_basic"]) if focus else cfg["max_basic"])
    factors = [_gen_basic(rng, cfg, i, None) for i in range(nb)]
    if focus == "weighted-exclusion" and all(w == 1 for f in factors for _, w in f["levels"]):
        rng.choice(rng.choice(factors)["levels"])[1] = 2
    nd = cfg["derived"] if rng.random() < 0.8 else 0
    j = 0
    for _ in range(nd):
        d = _gen_derived(rng, cfg, factors, j)
        if d is not None:
            factors.append(d)
            j += 1
    forced_cross = []        # derived factors the focus wants in the crossing
    forced_out = []          # ... and out of crossing and constraints (implied factors)

    def only(**kw):
        c = dict(cfg, win_within=False, win_transition=False, win_window=False, nested_derived=False, bad_tables=False)
        c.update(kw)
        return c
    if focus in ("exclude-crossed-derived", "exclude+preamble", "weighted-exclusion"):
        d = _gen_derived(rng, only(win_within=True), factors, j)
        if d is not None:
            factors.append(d)
            forced_cross.append(d["id"])
            j += 1
    if focus in ("preamble-in-crossing", "exclude+preamble"):
        d = _gen_derived(rng, only(win_transition=rng.random() < 0.7, win_window=True), [f for f in factors if f["kind"] == "basic"], j)
        if d is not None and d["window"]["stride"] == 1 and d["window"]["kind"] != "within":
            factors.append(d)
            forced_cross.append(d["id"])
            j += 1
    if focus == "derived-of-derived-crossed":
        # a crossed within-trial factor D whose argument A is itself a within-trial factor that is NOT crossed and that reads
        # a crossed and an uncrossed basic factor: D's level depends on the crossing instance and on the source combination
        basics_ = [f for f in factors if f["kind"] == "basic"]
        if len(basics_) >= 2:
            a_ = _gen_derived(rng, only(win_within=True), basics_[:2], j, force_args=[basics_[0], basics_[1]])
            if a_ is not None:
                factors.append(a_)
                forced_out.append(a_["id"])
                j += 1
                d_ = _gen_derived(rng, only(win_within=True), factors, j, force_args=[a_] + ([basics_[rng.randrange(2)]] if rng.random() < 0.3 else []))
                if d_ is not None:
                    factors.append(d_)
                    forced_cross.extend([d_["id"], basics_[0]["id"]])
                    j += 1
    if focus == "window-over-window":
        # a crossed (or constrained) window factor U whose argument T is itself a Transition/Window factor, T starting
        # at its default trial or at an explicit one: where U's window lies relative to T's first trial is the point
        basics_ = [f for f in factors if f["kind"] == "basic"]
        t_ = _gen_derived(rng, only(win_transition=rng.random() < 0.3, win_window=True), basics_, j)
        if t_ is not None and t_["window"]["stride"] == 1 and t_["window"]["kind"] != "within":
            if t_["window"]["kind"] == "window" and rng.random() < 0.6:
                t_["window"]["start"] = rng.randint(0, t_["window"]["width"] + 1)
                t_ = _retable(rng, cfg, factors, t_)
            if t_ is not None:
                factors.append(t_)
                j += 1
                u_ = None
                for _ in range(4):
                    u_ = _gen_derived(rng, only(win_window=True), factors, j, force_args=[t_] + ([rng.choice(basics_)] if rng.random() < 0.25 else []))
                    if u_ is not None and u_["window"]["stride"] == 1:
                        break
                    u_ = None
                if u_ is not None:
                    factors.append(u_)
                    forced_cross.append(u_["id"])
                    j += 1
    if focus == "implied-early-window":
        d = _gen_derived(rng, only(win_window=True), [f for f in factors if f["kind"] == "basic"], j)
        if d is not None:
            w = d["window"]
            w["kind"] = "window"
            if w["width"] < 2:
                d = None
            else:
                w["start"] = rng.randint(0, w["width"] - 2)
        if d is not None:
            # the tables were generated for another start: regenerate them for the universe of this window
            d2 = _retable(rng, cfg, factors, d)
            if d2 is not None:
                factors.append(d2)
                forced_out.append(d2["id"])
                j += 1
    design_ids = [f["id"] for f in factors]
    # crossing
    eligible = [f for f in factors if f["id"] not in forced_out and (f["kind"] == "basic" or (cfg["cross_derived"] and f["window"]["stride"] == 1))]
    crossing = []
    if not (cfg["empty_crossing"] and rng.random() < 0.5 and not focus):
        order = eligible[:]
        rng.shuffle(order)
        size = 1
        fbx = {f["id"]: f for f in factors}
        for fid in forced_cross:
            ws = sum(_weights(fbx[fid]))
            if size * ws <= cfg["max_cross"] + 2:
                crossing.append(fid)
                size *= ws
        order = [f for f in order if f["id"] not in crossing]
        for f in order:
            ws = sum(_weights(f))
            if size * ws <= cfg["max_cross"] and (not crossing or rng.random() < (0.85 if cfg.get("small") else 0.6)):
                crossing.append(f["id"])
                size *= ws
        if not crossing and order:
            f = min(order, key=lambda f: sum(_weights(f)))
            crossing = [f["id"]]
    # keep design order for the crossing list half the time
    if rng.random() < 0.5:
        crossing.sort(key=design_ids.index)
    fb = {f["id"]: f for f in factors}
    approxT = 1
    for fid in crossing:
        approxT *= sum(_weights(fb[fid]))
    cons = []
    nc = cfg["n_constraints"]
    for i in range(nc):
        c = _gen_constraint(rng, cfg, [f for f in factors if f["id"] not in forced_out], [i_ for i_ in design_ids if i_ not in forced_out], crossing, approxT, i, constraint_kinds)
        if c is not None:
            cons.append(c)
    sib = sibling_constraint(rng, cons, constraint_kinds)
    if sib is not None:
        cons.append(sib)
    rcc = not (cfg["rcc_false"] and rng.random() < 0.7)
    if any(c["kind"] == "exclude" for c in cons) and rng.random() < 0.6:
        rcc = False
    if focus in ("exclude-crossed-derived", "exclude+preamble", "weighted-exclusion") and constraint_kinds is None:
        within = [fid for fid in crossing if fb[fid]["kind"] == "derived" and fb[fid]["window"]["kind"] == "within"]
        if within:
            fid = rng.choice(within)
            lv = rng.choice(fb[fid]["levels"])["name"]
            cons.append({"id": "cx", "kind": "exclude", "target": [fid, lv], "spelling": rng.choice(["tuple", "level"])})
            rcc = rng.random() < 0.15
    if focus == "leftover" and constraint_kinds is None and approxT >= 2:
        cons = [c for c in cons if c["kind"] != "mintrials"]
        q = rng.randint(1, approxT)
        cons.append({"id": "cl", "kind": "mintrials", "n": min(cfg["max_T"] + 2, approxT * rng.choice([1, 1, 2]) + q)})
    ast = {"factors": factors,
           "block": {"kind": "cross", "design": design_ids, "crossing": crossing, "constraints": cons, "rcc": rcc}}
    return ast


def gen_design(rng, cfg, tier="quick", **kw):
    """Top-level generator: a CrossBlock, or (when the swarm enables it) a combinator expression."""
    focus = cfg.get("focus")
    if focus == "parallel-start" and rng.random() < 0.8:
        from . import gencomb
        ast = gencomb.gen_combinator_design(rng, dict(cfg, derived=max(1, cfg.get("derived", 0)), cross_derived=True), tier, rng.choice(["multicross", "multicross", "merge"]))
        if ast is not None:
            return ast
    if focus == "leftover" and rng.random() < 0.35:
        # A Transition factor in the crossing next to within-trial/basic factors, repeated with a partial last round exactly
        # as long as the number of combinations of the non-complex crossed factors: the one leftover length at which a
        # combinatoric sampler can mistake "one trial per combination" for the partial round it is.
        for _ in range(12):
            ast = gen_template_design(rng, cfg, tier)
            if any(f["id"] == "d1" for f in ast["factors"]):
                break
        else:
            ast = None
        if ast is not None:
            b = ast["block"]
            fb = {f["id"]: f for f in ast["factors"]}
            if rng.random() < 0.7:
                for f in ast["factors"]:
                    for lv in f["levels"]:
                        if f["kind"] == "basic":
                            lv[1] = 1
                        else:
                            lv["weight"] = 1
            b["crossing"] = rng.choice([["d0", "d1"], ["d0", "d1"], ["d1", "d0"], ["f0", "d1"], ["f1", "d1"]])
            b["constraints"] = []
            b["rcc"] = True
            size = 1
            q = 1
            for c in b["crossing"]:
                size *= sum(_weights(fb[c]))
                if c != "d1":
                    q *= len(fb[c]["levels"])
            n = 1 + size * rng.choice([1, 1, 2]) + rng.choice([q, q, q, 1, size - 1])
            return {"factors": ast["factors"], "block": {"kind": "repeat", "block": b, "constraints": [{"id": "rm", "kind": "mintrials", "n": n}]}}
    if focus == "leftover" and rng.random() < 0.3:
        # the smallest design with a weighted crossing over a derived factor whose source factor stays outside the crossing:
        # one factor `item`, one factor `kind` that groups its levels, crossing [kind], and a partial last run (often exactly as
        # long as the number of kinds).  Few enough sequences to enumerate at 5-7 trials.
        nl = rng.choice([3, 3, 4])
        g = rng.choice([2, 2, 3])
        items = ["i%d" % k for k in range(nl)]
        cut = sorted(rng.sample(range(1, nl), g - 1))
        groups = [items[a:b_] for a, b_ in zip([0] + cut, cut + [nl])]
        item = {"id": "f0", "kind": "basic", "name": "item", "levels": [[x, 1] for x in items]}
        kind = {"id": "d0", "kind": "derived", "name": "kind", "window": {"kind": "within", "width": 1, "stride": 1, "start": None}, "args": ["f0"],
                "levels": [{"name": "g%d" % k, "weight": 1, "table": [[x] for x in grp]} for k, grp in enumerate(groups)]}
        if rng.random() < 0.75:
            rng.choice(kind["levels"])["weight"] = 2
        size = sum(l["weight"] for l in kind["levels"])
        n = size * rng.choice([1, 1, 2]) + rng.choice([g, g, g, 1, size - 1])
        b = {"kind": "cross", "design": ["f0", "d0"], "crossing": ["d0"], "constraints": [], "rcc": True}
        mt = {"id": "rm", "kind": "mintrials", "n": n}
        if rng.random() < 0.4:
            b["constraints"].append(mt)
            return {"factors": [item, kind], "block": b}
        return {"factors": [item, kind], "block": {"kind": "repeat", "block": b, "constraints": [mt]}}
    if focus == "leftover" and rng.random() < 0.6:
        # a Stroop-like block whose trial count leaves a partial last run: MinimumTrials on the block or Repeat around it
        ast = gen_template_design(rng, cfg, tier)
        b = ast["block"]
        fb = {f["id"]: f for f in ast["factors"]}
        if rng.random() < 0.6:
            # the derived factor in the crossing, its source factors (partly) outside it, and a weight on one of its levels
            b["crossing"] = rng.choice([["d0"], ["d0"], ["f0", "d0"], ["f1", "d0"]])
            b["constraints"] = [c for c in b["constraints"] if c["kind"] not in ("exclude",)]
            b["rcc"] = True
            if rng.random() < 0.7 and all(l.get("weight", 1) == 1 for l in fb["d0"]["levels"]):
                rng.choice(fb["d0"]["levels"])["weight"] = 2
        size = 1
        ncomb = 1
        pre = 0
        for c in b["crossing"]:
            size *= sum(_weights(fb[c]))
            if fb[c]["kind"] == "derived" and fb[c]["window"]["kind"] != "within":
                # a partial run as long as the number of combinations of the OTHER crossed factors is the interesting length
                pre = max(pre, fb[c]["window"]["width"] - 1)
            else:
                ncomb *= len(fb[c]["levels"])
        b["constraints"] = [c for c in b["constraints"] if c["kind"] != "mintrials"]
        q = rng.choice([ncomb, ncomb, 1, size - 1, rng.randint(1, max(1, size))])
        n = max(1, min(pre + size * rng.choice([1, 1, 2]) + max(0, q), cfg.get("max_T", 8) + 3))
        mt = {"id": "rm", "kind": "mintrials", "n": n}
        if rng.random() < 0.5:
            b["constraints"].append(mt)
            return ast
        return {"factors": ast["factors"], "block": {"kind": "repeat", "block": b, "constraints": [mt]}}
    if focus and focus not in ("parallel-start", "leftover") and rng.random() < 0.85:
        return gen_cross_design(rng, cfg, tier, **kw)
    if cfg.get("combinators") and rng.random() < 0.6:
        from . import gencomb
        ast = gencomb.gen_combinator_design(rng, cfg, tier)
        if ast is not None:
            return ast
    if cfg.get("templates", True) and rng.random() < 0.25:
        ast = gen_template_design(rng, cfg, tier)
        if cfg.get("combinators") and rng.random() < 0.5:
            # the classic use of Repeat: a Stroop-like block repeated to a trial count that may leave a partial repetition
            b = ast["block"]
            fb = {f["id"]: f for f in ast["factors"]}
            size = 1
            for c in b["crossing"]:
                size *= sum(_weights(fb[c]))
            inner_cons = [c for c in b["constraints"] if c["kind"] != "mintrials"]
            b["constraints"] = inner_cons
            n = size * rng.choice([1, 2, 2]) + rng.choice([0, 0, 1, 2, size - 1])
            ast = {"factors": ast["factors"], "block": {"kind": "repeat", "block": b, "constraints": [{"id": "rm", "kind": "mintrials", "n": max(1, min(n, cfg.get("max_T", 8) + 2))}]}}
        return ast
    return gen_cross_design(rng, cfg, tier, **kw)


def add_continuous(rng, ast, nmax=2, with_constraint=True):
    """Append 1..nmax continuous factors (and maybe a ContinuousConstraint) to a cross/multicross design in place."""
    blk = ast["block"]
    if blk["kind"] not in ("cross", "multicross"):
        return ast
    fb = {f["id"]: f for f in ast["factors"]}
    discrete = [i for i in blk["design"] if fb[i]["kind"] == "basic"]
    conts = []
    n = rng.randint(1, nmax)
    for j in range(n):
        kind = rng.choice(["uniform", "gauss", "exp", "lognormal", "custom", "custom", "custom"])
        name = "K%d" % j
        if kind == "uniform":
            d = {"kind": "uniform", "lo": 0.0, "hi": rng.choice([1.0, 10.0])}
        elif kind == "gauss":
            d = {"kind": "gauss", "mu": 0.0, "sigma": 1.0}
        elif kind == "exp":
            d = {"kind": "exp", "rate": 1.0}
        elif kind == "lognormal":
            d = {"kind": "lognormal", "mu": 0.0, "sigma": 0.5}
        else:
            deps = []
            if discrete and rng.random() < 0.6:
                fid = rng.choice(discrete)
                deps.append({"factor": fid, "coef": rng.choice([1.0, 2.0]),
                             "map": {n_: float(i + 1) for i, (n_, _) in enumerate(fb[fid]["levels"])}})
            if conts and rng.random() < 0.6:
                deps.append({"factor": rng.choice(conts)["id"], "coef": rng.choice([1.0, -1.0, 0.5])})
            if conts and rng.random() < 0.5:
                width = rng.choice([1, 2, 3])
                start = rng.choice([None, None, 0, width, width + 1])
                deps.append({"window": {"factors": [c["id"] for c in rng.sample(conts, rng.randint(1, min(2, len(conts))))],
                                        "width": width, "stride": rng.choice([1, 1, 2]), "start": start},
                             "weights": [float(rng.choice([1, 2])) for _ in range(width)], "coef": 1.0})
            d = {"kind": "custom", "base": float(rng.choice([0, 1, 5])), "deps": deps,
                 "cumulative": rng.random() < 0.3, "noise": None if deps else [0.0, 0.5]}
        f = {"id": "k%d" % j, "kind": "continuous", "name": name, "dist": d}
        conts.append(f)
    ast["factors"].extend(conts)
    # continuous factors go anywhere in the declared design order
    for f in conts:
        blk["design"].insert(rng.randint(0, len(blk["design"])), f["id"])
    # keep dependency order among continuous factors (the constructor demands it)
    order = [f["id"] for f in conts]
    pos = sorted(blk["design"].index(i) for i in order)
    for p, i in zip(pos, order):
        blk["design"][p] = i
    if with_constraint and rng.random() < 0.5:
        fs = rng.sample(conts, min(len(conts), rng.choice([1, 2])))
        blk["constraints"].append({"id": "cc0", "kind": "ccons", "factors": [f["id"] for f in fs],
                                   "pred": rng.choice([{"op": "sum_lt", "c": rng.choice([1000.0, 50.0])}, {"op": "sum_gt", "c": rng.choice([-1000.0, -50.0])},
                                                       {"op": "sum_lt", "c": rng.choice([1000.0, 3.0])}])})
    return ast


# ---------------------------------------------------------------------------
# template designs: the shapes SweetPea's documentation and users actually write (Stroop-like)

COLORS = ["red", "blue", "green"]


def gen_template_design(rng, cfg, tier="quick", smgen_friendly=False):
    """color x word with a within-trial 'congruent' factor, optionally a transition factor, level and derived-level
    weights, crossings that mix basic and derived factors, MinimumTrials, and a few constraints."""
    nc = rng.choice([2, 2, 3])
    nw = rng.choice([2, 2, 3]) if not smgen_friendly else nc
    cw = [1] * nc
    ww = [1] * nw
    if rng.random() < 0.3:
        cw[rng.randrange(nc)] = 2
    if rng.random() < 0.2:
        ww[rng.randrange(nw)] = 2
    color = {"id": "f0", "kind": "basic", "name": "color", "levels": [[COLORS[i], cw[i]] for i in range(nc)]}
    word = {"id": "f1", "kind": "basic", "name": "word", "levels": [[COLORS[i], ww[i]] for i in range(nw)]}
    factors = [color, word]
    con_rows = [[COLORS[i], COLORS[i]] for i in range(min(nc, nw))]
    inc_rows = [[COLORS[i], COLORS[j]] for i in range(nc) for j in range(nw) if i != j]
    dw = rng.choice([1, 1, 2, 3])
    congruent = {"id": "d0", "kind": "derived", "name": "congruent", "window": {"kind": "within", "width": 1, "stride": 1, "start": None},
                 "args": ["f0", "f1"],
                 "levels": [{"name": "yes", "weight": dw, "table": con_rows},
                            ({"name": "no", "weight": rng.choice([1, 1, 2]), "else": True} if rng.random() < 0.5 else
                             {"name": "no", "weight": rng.choice([1, 1, 2]), "table": inc_rows})]}
    factors.append(congruent)
    has_tr = rng.random() < 0.4
    if has_tr:
        # the repetition of a colour, of a word, or (a third of the time) of congruency itself: a Transition over a derived factor
        src = rng.choice([color, word, congruent]) if rng.random() < 0.5 else rng.choice([color, word])
        names = [n for n, _ in src["levels"]] if src["kind"] == "basic" else [l["name"] for l in src["levels"]]
        rep_rows = [[[a, a]] for a in names]
        sw_rows = [[[a, b]] for a in names for b in names if a != b]
        factors.append({"id": "d1", "kind": "derived", "name": "repeat", "window": {"kind": "transition", "width": 2, "stride": 1, "start": 1},
                        "args": [src["id"]], "levels": [{"name": "rep", "weight": 1, "table": rep_rows}, {"name": "sw", "weight": 1, "table": sw_rows}]})
    ids = [f["id"] for f in factors]
    options = [["f0", "f1"], ["f0", "d0"], ["d0"], ["f0"], ["f1", "d0"]]
    if has_tr:
        options += [["d1"], ["f0", "d1"], ["d0", "d1"]]
    crossing = rng.choice(options)
    fb = {f["id"]: f for f in factors}
    size = 1
    for c in crossing:
        size *= sum(_weights(fb[c]))
    if size > cfg.get("max_cross", 6) + 3:
        crossing = ["d0"] if rng.random() < 0.5 else ["f0"]
        size = sum(_weights(fb[crossing[0]]))
    cons = []
    if not smgen_friendly:
        for i in range(rng.choice([0, 0, 1, 1, 2])):
            kind = rng.choice(["atmost", "atmost", "exactlyk", "atleast", "exactlyrow", "pin", "exclude"])
            f = rng.choice(factors)
            lv = rng.choice(f["levels"])
            lvn = lv[0] if f["kind"] == "basic" else lv["name"]
            c = {"id": "c%d" % i, "kind": kind, "target": [f["id"], lvn], "spelling": rng.choice(["tuple", "level"])}
            if kind == "pin":
                c["index"] = rng.choice([0, 1, -1, -size, size - 1])
            elif kind != "exclude":
                c["k"] = rng.randint(1, 3)
            cons.append(c)
    if rng.random() < 0.35:
        cons.append({"id": "cm", "kind": "mintrials", "n": rng.randint(max(1, size - 1), min(cfg.get("max_T", 8) + 1, 2 * size + 1))})
    rcc = not any(c["kind"] == "exclude" for c in cons)
    return {"factors": factors, "block": {"kind": "cross", "design": ids, "crossing": crossing, "constraints": cons, "rcc": rcc}}
