"""Shared pieces for the checks: case construction, running the library inside a world, design shrinking."""
import traceback

from . import dast, gen, refsem, world as W

PEERS = ["native", "walk", "walk", "lexmin", "lexmax", "cmsgen"]


def draw_knobs(rng, transports=("lib", "lib", "cli")):
    return {
        "peer": rng.choice(PEERS),
        "transport": rng.choice(transports),
        "cli_width": rng.choice([None, 40, 78, 200]),
        "rng_mode": rng.choice(["random", "random", "random", "lo", "hi", "alt"]),
        "np_mode": "stream",
        "sampler": "real",
        "env_check": False,
        "real_peers": False,
    }


def innermost_sweetpea_frame(tb):
    """file:function of the innermost frame inside the sweetpea package (for violation signatures)."""
    best = None
    for fs in traceback.extract_tb(tb):
        if "/sweetpea/" in fs.filename:
            best = "%s:%s" % (fs.filename.split("/sweetpea/")[-1].replace("_internal/", ""), fs.name)
    return best or "outside-sweetpea"


def is_injected(exc):
    e = exc
    seen = 0
    while e is not None and seen < 8:
        if getattr(e, "injected", False):
            return True
        e = e.__cause__ or e.__context__
        seen += 1
    return False


def constraint_kinds(ast):
    return sorted(set(c["kind"] for _, c in dast.iter_constraints(ast["block"])))


def first_events(w, n=20):
    return [list(map(str, e)) for e in w.log[:n]]


# ---------------------------------------------------------------------------
# shrinking of designs (AST edits, each validated by re-running the case)


def _referenced_factor_ids(ast):
    ref = set()
    for f in ast["factors"]:
        if f["kind"] == "derived":
            ref.update(f["args"])
        if f["kind"] == "continuous":
            for d in f.get("dist", {}).get("deps", []):
                if isinstance(d, dict):
                    ref.update(d.get("factors", []))
                else:
                    ref.add(d)
    for b in dast.iter_blocks(ast["block"]):
        for c in dast.block_crossings(b) if b["kind"] in ("cross", "multicross") else []:
            ref.update(c)
        for c in b.get("constraints", []):
            if "target" in c:
                ref.add(c["target"][0])
            if "factor" in c:
                ref.add(c["factor"])
            ref.update(c.get("factors", []))
    return ref


def _remove_factor(ast, fid):
    a = dast.clone(ast)
    a["factors"] = [f for f in a["factors"] if f["id"] != fid]
    for b in dast.iter_blocks(a["block"]):
        if "design" in b:
            b["design"] = [i for i in b["design"] if i != fid]
    return a


def design_shrinks(ast):
    """Yield smaller ASTs (most aggressive first)."""
    blk = ast["block"]
    # 1. replace a combinator by an operand
    k = blk["kind"]
    subs = []
    if k == "repeat":
        subs = [blk["block"]]
    elif k == "merge":
        subs = list(blk["blocks"])
    elif k == "nest":
        subs = [blk["outer"], blk["inner"]]
    for s in subs:
        a = dast.clone(ast)
        a["block"] = dast.clone(s)
        yield a
    if k == "merge" and len(blk["blocks"]) > 1:
        for i in range(len(blk["blocks"])):
            a = dast.clone(ast)
            del a["block"]["blocks"][i]
            yield a
    # 2. drop constraints
    paths = []

    def walk(b, path):
        for i in range(len(b.get("constraints", []))):
            paths.append((path, i))
        if b["kind"] == "repeat":
            walk(b["block"], path + ["block"])
        elif b["kind"] == "merge":
            for j, x in enumerate(b["blocks"]):
                walk(x, path + ["blocks", j])
        elif b["kind"] == "nest":
            walk(b["outer"], path + ["outer"])
            walk(b["inner"], path + ["inner"])
    walk(blk, [])

    def at(a, path):
        b = a["block"]
        for p in path:
            b = b[p]
        return b
    for path, i in paths:
        a = dast.clone(ast)
        del at(a, path)["constraints"][i]
        yield a
    # 3. drop unreferenced factors; drop factors from crossings
    ref = _referenced_factor_ids(ast)
    for f in reversed(ast["factors"]):
        if f["id"] not in ref:
            yield _remove_factor(ast, f["id"])
    for b_i, b in enumerate(dast.iter_blocks(blk)):
        if b["kind"] == "cross" and len(b["crossing"]) > 1:
            for fid in b["crossing"]:
                a = dast.clone(ast)
                bb = list(dast.iter_blocks(a["block"]))[b_i]
                bb["crossing"] = [x for x in bb["crossing"] if x != fid]
                yield a
        if b["kind"] == "multicross" and len(b["crossings"]) > 1:
            for ci in range(len(b["crossings"])):
                a = dast.clone(ast)
                bb = list(dast.iter_blocks(a["block"]))[b_i]
                del bb["crossings"][ci]
                yield a
    # 4. numbers towards small
    for path, i in paths:
        c = at(ast, path)["constraints"][i]
        for key in ("k", "n"):
            if key in c and c[key] > 1:
                for nv in sorted(set([1, c[key] // 2, c[key] - 1])):
                    if 1 <= nv < c[key]:
                        a = dast.clone(ast)
                        at(a, path)["constraints"][i][key] = nv
                        yield a
        if "index" in c and c["index"] not in (0, -1):
            for nv in (0, -1):
                a = dast.clone(ast)
                at(a, path)["constraints"][i]["index"] = nv
                yield a
        if c.get("spelling") not in (None, "tuple", "factor"):
            a = dast.clone(ast)
            at(a, path)["constraints"][i]["spelling"] = "tuple"
            yield a
    # 5. weights -> 1, drop levels of basic factors, simplify windows
    for fi, f in enumerate(ast["factors"]):
        if f["kind"] == "basic":
            for li, (n, w) in enumerate(f["levels"]):
                if w > 1:
                    a = dast.clone(ast)
                    a["factors"][fi]["levels"][li][1] = 1
                    yield a
            if len(f["levels"]) > 2:
                for li, (n, w) in enumerate(f["levels"]):
                    if _level_unreferenced(ast, f["id"], n):
                        a = dast.clone(ast)
                        del a["factors"][fi]["levels"][li]
                        _strip_level_from_tables(a, f["id"], n)
                        yield a
        elif f["kind"] == "derived":
            for li, l in enumerate(f["levels"]):
                if l.get("weight", 1) > 1:
                    a = dast.clone(ast)
                    a["factors"][fi]["levels"][li]["weight"] = 1
                    yield a
            w = f["window"]
            if w["kind"] == "window":
                if w["start"] is not None:
                    a = dast.clone(ast)
                    a["factors"][fi]["window"]["start"] = None
                    if _tables_total(a, fi):
                        yield a
                if w["stride"] > 1:
                    a = dast.clone(ast)
                    a["factors"][fi]["window"]["stride"] = 1
                    yield a
    if blk.get("rcc") is False:
        a = dast.clone(ast)
        a["block"]["rcc"] = True
        yield a


def _tables_total(ast, fi):
    try:
        F = refsem.build_factors({"factors": ast["factors"][:fi + 1]})
        return refsem.classify_derived(F[ast["factors"][fi]["id"]])[0] == "ok"
    except Exception:
        return False


def _level_unreferenced(ast, fid, name):
    for _, c in dast.iter_constraints(ast["block"]):
        t = c.get("target")
        if t and t[0] == fid and len(t) > 1 and t[1] == name:
            return False
    return True


def _strip_level_from_tables(ast, fid, name):
    for f in ast["factors"]:
        if f["kind"] != "derived" or fid not in f["args"]:
            continue
        ai = f["args"].index(fid)
        w = f["window"]["width"]
        for l in f["levels"]:
            if "table" in l:
                if w == 1:
                    l["table"] = [r for r in l["table"] if r[ai] != name]
                else:
                    l["table"] = [r for r in l["table"] if name not in r[ai]]


def shrink_case(case):
    """Generic candidates for cases of the shape {"design": ast, "knobs": {...}, ...}."""
    ast = case.get("design")
    if ast is not None:
        for a in design_shrinks(ast):
            c = dict(case)
            c["design"] = a
            yield c
    kn = case.get("knobs")
    if kn:
        for key, simple in (("peer", "native"), ("transport", "lib"), ("rng_mode", "random"), ("cli_width", None), ("env_check", False)):
            if kn.get(key) != simple:
                c = dict(case)
                c["knobs"] = dict(kn)
                c["knobs"][key] = simple
                yield c
    if case.get("faults"):
        for i in range(len(case["faults"])):
            c = dict(case)
            c["faults"] = case["faults"][:i] + case["faults"][i + 1:]
            yield c


# ---------------------------------------------------------------------------
# running the library


def strategy(name):
    import sweetpea as sp
    return {"IterateSATGen": sp.IterateSATGen, "CMSGen": sp.CMSGen, "UniGen": sp.UniGen, "IterateGen": sp.IterateGen,
            "UniformGen": sp.UniformGen, "RandomGen": sp.RandomGen, "SMGen": sp.SMGen, "IterateILPGen": sp.IterateILPGen}[name]


def strategy_for(w, strat):
    """The strategy argument as a user may pass it: the class, or - for RandomGen, which documents a constructor - one
    generator OBJECT that is reused for every call in this world (in 40 % of the worlds, decided by the run's seed)."""
    cls = strategy(strat)
    if strat == "RandomGen" and hasattr(cls, "sample_object"):
        if not hasattr(w, "_randomgen_obj"):
            w._randomgen_obj = cls(0) if w.stream("strategy-object").random() < 0.4 else None
        if w._randomgen_obj is not None:
            w.count("strategy-object-call")
            return w._randomgen_obj
    return cls


def synth(w, blk, strat, n):
    """synthesize_trials inside world w.  Returns (result, None) or (None, exception)."""
    import sweetpea as sp
    try:
        res = sp.synthesize_trials(blk, n, strategy_for(w, strat))
    except W.HarnessCap:
        raise
    except BaseException as e:   # noqa
        if isinstance(e, (KeyboardInterrupt, SystemExit)) or type(e).__name__ in ("CaseTimeout", "InnerTimeout"):
            raise
        w.log.append(("op", strat, n, "raise", type(e).__name__))
        return None, e
    w.log.append(("op", strat, n, len(res), W._sha1(repr(res))))
    return res, None


def construct(w, ast, **kw):
    """Build the block inside world w.  Returns (block, builder, None) or (None, None, exception)."""
    from . import build
    try:
        blk, b = build.build_block(ast, **kw)
    except BaseException as e:   # noqa
        if isinstance(e, (KeyboardInterrupt, SystemExit)) or type(e).__name__ in ("CaseTimeout", "InnerTimeout"):
            raise
        w.log.append(("construct", "raise", type(e).__name__))
        return None, None, e
    w.log.append(("construct", "ok", blk.trials_per_sample()))
    return blk, b, None


def clause_kind(clause):
    head = clause.split("(")[0].split(" ")[0].rstrip(":")
    return head


def result_base(w, **extra):
    d = {"digest": w.digest(), "counters": dict(w.counters), "faults": dict(w.fault_fired), "first_events": first_events(w)}
    if w.knobs.get("optrace"):
        d["optrace"] = {"fs": list(w.op_trace["fs"]), "peer": list(w.op_trace["peer"]), "stdout": w.stdout.nchars}
    d.update(extra)
    return d


# ---------------------------------------------------------------------------
# exhaustive fault placement over one workload (DESIGN.md 3.5, last paragraph)

FS_FAULTS_FOR = {"write": [("fs.enospc", 0.0), ("fs.enospc", 0.5), ("fs.eacces", 0.0)], "append": [("fs.enospc", 0.0), ("fs.enospc", 0.6)],
                 "read": [("fs.eio", 0.0), ("fs.vanish", 0.0)]}


def sweep_placements(optrace, kinds, rng, cap=160, max_addclause=4, epipe_points=6):
    """All (operation index x applicable fault kind) placements for one recorded fault-free execution.  Peer faults go on
    every solve/sample operation and on a few add_clause operations (first, last, some in between); stdout EPIPE at a few
    character offsets spread over what the run printed."""
    out = []
    for i, k in enumerate(optrace["fs"]):
        for kind, arg in FS_FAULTS_FOR.get(k, []):
            if kind in kinds:
                out.append({"kind": kind, "at": i, "arg": arg})
    peer_kinds = [k for k in ("peer.raise", "peer.unknown", "peer.memory") if k in kinds]
    adds = [i for i, s in enumerate(optrace["peer"]) if s == "add_clause"]
    pick = set(adds[:1] + adds[-1:])
    if len(adds) > 2:
        pick.update(rng.sample(adds, min(max_addclause, len(adds))))
    for i, s in enumerate(optrace["peer"]):
        if s == "add_clause" and i not in pick:
            continue
        for kind in peer_kinds:
            if kind == "peer.unknown" and s == "add_clause":
                continue
            out.append({"kind": kind, "at": i})
    if "stdout.epipe" in kinds and optrace.get("stdout"):
        n = optrace["stdout"]
        pts = sorted(set([0, 1, n - 1] + [rng.randrange(n) for _ in range(epipe_points)]))
        out.extend({"kind": "stdout.epipe", "at": p} for p in pts if 0 <= p < n)
    if len(out) > cap:
        out = [out[i] for i in sorted(rng.sample(range(len(out)), cap))]
    return out


def fault_sweep(run_one, case, kinds, seed_name="sweep", cap=160):
    """Runs `case` fault-free, then once per fault placement.  Returns the fault-free result (with sweep counters) or the
    first violating run; that result carries `reduced_case` = the plain single-fault case that reproduces it."""
    from . import world as W_
    c0 = dict(case)
    c0["sweep"] = False
    c0["faults"] = []
    c0["knobs"] = dict(case["knobs"], optrace=True)
    r0 = run_one(c0)
    ot = r0.pop("optrace", None)
    if r0.get("outcome") != "ok" or ot is None:
        if r0.get("outcome") == "violation":
            c1 = dict(c0)
            c1["knobs"] = dict(case["knobs"])
            r0["reduced_case"] = c1
        return r0
    rng = W_.stream(case["run_seed"], seed_name)
    placements = sweep_placements(ot, kinds, rng, cap)
    fired = {}
    nfired = 0
    digests = [r0.get("digest") or ""]
    for p in placements:
        c = dict(case)
        c["sweep"] = False
        c["faults"] = [p]
        r = run_one(c)
        digests.append(r.get("digest") or r.get("reason") or "")
        for k, v in (r.get("faults") or {}).items():
            fired[k] = fired.get(k, 0) + v
            nfired += v
        if r.get("outcome") == "violation":
            r["reduced_case"] = c
            r["detail"] = "fault sweep placement %r: %s" % (p, r.get("detail"))
            return r
    r0["faults"] = fired
    r0.setdefault("counters", {})
    r0["counters"]["sweep.workloads"] = 1
    r0["counters"]["sweep.placements"] = len(placements)
    r0["counters"]["sweep.placements_fired"] = nfired
    r0["digest"] = W_._sha1("|".join(digests))
    return r0


def innermost_frame_info(exc):
    """(file:function, class name of `self` if any) of the innermost sweetpea frame of an exception."""
    tb = exc.__traceback__
    best = ("outside-sweetpea", None)
    while tb is not None:
        fn = tb.tb_frame.f_code.co_filename
        if "/sweetpea/" in fn:
            slf = tb.tb_frame.f_locals.get("self")
            best = ("%s:%s" % (fn.split("/sweetpea/")[-1].replace("_internal/", ""), tb.tb_frame.f_code.co_name),
                    type(slf).__name__ if slf is not None else None)
        tb = tb.tb_next
    return best


TIMEOUT_FIRED = False


class InnerTimeout(BaseException):     # BaseException: the library's blanket 'except Exception' must not swallow it
    pass


class time_limit:
    """Nested wall-clock guard that cooperates with runner.exec_case's ITIMER_REAL alarm."""

    def __init__(self, seconds):
        self.seconds = seconds

    def __enter__(self):
        import signal
        import time

        def handler(signum, frame):
            global TIMEOUT_FIRED
            TIMEOUT_FIRED = True          # wall-clock dependent outcome: excluded from determinism comparisons
            raise InnerTimeout()
        self.t0 = time.time()
        outer_left, _ = signal.getitimer(signal.ITIMER_REAL)
        # An outer deadline that comes first stays in charge: replacing it by this (later) one and re-arming it on exit
        # would postpone it for ever when guarded sections follow each other back to back (observed: a fault sweep of 60
        # eight-second sections ran for minutes under a 20 s case alarm).
        self.noop = 0 < outer_left <= self.seconds
        if self.noop:
            return self
        self.old_handler = signal.signal(signal.SIGALRM, handler)
        self.remaining, _ = signal.setitimer(signal.ITIMER_REAL, self.seconds)
        return self

    def __exit__(self, et, ev, tb):
        import signal
        import time
        if self.noop:
            return False
        signal.setitimer(signal.ITIMER_REAL, 0)
        signal.signal(signal.SIGALRM, self.old_handler)
        if self.remaining:
            left = self.remaining - (time.time() - self.t0)
            if left <= 0.002:
                # the outer deadline passed while this section ran: deliver it now
                if callable(self.old_handler) and et is None:
                    self.old_handler(signal.SIGALRM, None)
                left = 0.002
            signal.setitimer(signal.ITIMER_REAL, left)
        return False


def lib_multiset(m, res):
    """Counter of printed sequences (over the model's design) for library output."""
    from collections import Counter
    c = Counter()
    for e in res:
        seq = refsem.named_to_seq(m, e)
        if len(seq) != len(m.design):
            c[("MISSING-FACTOR", tuple(sorted(map(str, e.keys()))))] += 1
        else:
            c[refsem.print_key(m, seq)] += 1
    return c


def enum_or_skip(m, tier, cap=None):
    caps = {"quick": (300, 60000), "thorough": (2000, 600000)}[tier if tier in ("quick", "thorough") else "quick"]
    try:
        V = refsem.enumerate_valid(m, cap=cap or caps[0], node_cap=caps[1])
    except refsem.TooBig:
        return None
    return V


_KNOWN = None


def known_signatures(prop):
    """Signatures of recorded known findings (read-only): a check that sees several violations in one run reports
    the first one that is NOT already recorded, so a frequent known defect cannot hide a new one."""
    global _KNOWN
    if _KNOWN is None:
        import json, os
        p = os.path.join(os.path.dirname(os.path.dirname(os.path.abspath(__file__))), "findings", "known_findings.json")
        try:
            with open(p) as f:
                _KNOWN = json.load(f)
        except OSError:
            _KNOWN = []
    return [f for f in _KNOWN if f.get("status") == "known" and f["property"] == prop]


def pick_violation(prop, viols):
    """viols: list of (signature, detail).  Prefer one that is not a recorded known finding."""
    if not viols:
        return None
    import re
    known = known_signatures(prop)

    def is_known(sig):
        for f in known:
            if f.get("signature_re"):
                if re.search(f["signature_re"], sig):
                    return True
            elif f["signature"] == sig:
                return True
        return False
    for v in viols:
        if not is_known(v[0]):
            return v
    return viols[0]


def invalid_tail(m, bad):
    """Signature tail for a list of violated clauses (refsem.valid output): the failing oracle clause plus narrow,
    root-cause discriminating tags, so that a different failure of the same property is a different signature."""
    F = m.factors
    byname = {F[fid].name: F[fid] for fid in m.design}
    first = bad[0]
    kind = clause_kind(first)
    tags = []
    if kind == "ExactlyK":
        k = int(first.split("(")[1].split(",")[0])
        if k > m.T:
            tags.append("k>window")
    elif kind == "derived":
        name = first.split(" ")[1].split("=")[0]
        f = byname.get(name)
        if f is not None and any(a.kind == "derived" and a.complex for a in f.args):
            tags.append("derived-over-complex-derived")
        if f is not None and f.width >= 3 and f.start < f.width - 1:
            tags.append("wide-window-before-first-trial")
    elif kind == "trial-count":
        name = first.split(" ")[1].rstrip(":")
        f = byname.get(name)
        got, want = [int(x) for x in first.split(":")[1].replace("!=", " ").split()]
        if f is not None:
            tags.append(f.kind + ("-shorter" if got < want else "-longer"))
            if f.kind == "derived" and any(a.kind == "derived" and a.complex for a in f.args):
                tags.append("complex-arg")
    return "/".join([kind] + tags)


def family_tags(m):
    """Tags for regions of the design space with recorded defects (derived factors over complex derived factors).
    They are appended to violation signatures so that the recorded findings match only designs of that shape."""
    F = m.factors
    tags = set()
    for fid in m.design:
        f = F[fid]
        if f.kind != "derived":
            continue
        if any(a.kind == "derived" and a.complex for a in f.args):
            tags.add("derived-over-complex-derived")
        if f.width >= 3 and f.start < f.width - 1:
            tags.add("wide-window-before-first-trial")
    return sorted(tags)


def with_family(sig, m, extra=()):
    t = [x for x in list(family_tags(m)) + list(extra) if x not in sig]
    return sig + ("/" + ",".join(sorted(set(t))) if t else "")


# ---------------------------------------------------------------------------
# user abort at an arbitrary line of a library call (DESIGN.md 3.5 abort@line)


class LineAbort:
    """Context manager: raises smworld.SimAbort (a KeyboardInterrupt-like BaseException) at the `at`-th traced `line` event
    inside the sweetpea package.  Not firing (the call has fewer lines) is fine: the fault simply did not land."""

    def __init__(self, w, at, line_cap=3000000):
        self.w, self.at, self.n, self.fired, self.line_cap = w, at, 0, False, line_cap

    def _local(self, frame, event, arg):
        if event == "line":
            self.n += 1
            if self.at is not None and self.n == self.at:
                from .smworld import SimAbort
                self.at = None
                self.fired = True
                self.w.fired("abort@line", frame.f_code.co_name)
                raise SimAbort()
        return self._local

    def _global(self, frame, event, arg):
        if "/sweetpea/" in frame.f_code.co_filename:
            return self._local
        return None

    def __enter__(self):
        import sys
        self._old = sys.gettrace()
        if self.at is not None:
            sys.settrace(self._global)
        return self

    def __exit__(self, *a):
        import sys
        sys.settrace(self._old)
        return False
