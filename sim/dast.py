"""Design AST: the JSON-serialisable description of a design (DESIGN.md section 4.1).

design   := {"factors": [factor...], "block": blockexpr}
factor   := {"id", "kind": "basic", "name", "levels": [[name, weight]...]}
          | {"id", "kind": "derived", "name", "window": {"kind": within|transition|window,
                 "width", "stride", "start": int|None}, "args": [fid...],
             "levels": [{"name", "weight", "table": [row...]} | {"name", "weight", "else": True}]}
          | {"id", "kind": "continuous", "name", "dist": {...}}
row      := width 1: [argvalue...]           (one entry per argument)
            width>1: [[v_oldest..v_newest]...] (one list per argument; entries may be None)
blockexpr:= {"kind": "cross", "design": [fid], "crossing": [fid], "constraints": [c], "rcc": bool}
          | {"kind": "multicross", "design", "crossings": [[fid]], "constraints", "rcc", "mode", "alignment"}
          | {"kind": "repeat", "block": blockexpr, "constraints"}
          | {"kind": "merge", "blocks": [blockexpr], "constraints", "mode", "alignment": str|None}
          | {"kind": "nest", "outer": blockexpr, "inner": blockexpr, "constraints", "alignment": None}
c        := {"id", "kind": exclude|pin|mintrials|atmost|atleast|exactlyrow|exactlyk|sequential|latinsquare|ccons, ...}
             target: [fid, levelname] | [fid]   ;  "spelling": "tuple"|"level"|"factor"
"""
import copy
import hashlib
import json

RUN_KINDS = ("atmost", "atleast", "exactlyrow", "exactlyk")
LEVEL_KINDS = ("exclude", "pin") + RUN_KINDS
ALL_CONSTRAINT_KINDS = ("exclude", "pin", "mintrials", "atmost", "atleast", "exactlyrow",
                        "exactlyk", "sequential", "latinsquare")


def canon(obj):
    return json.dumps(obj, sort_keys=True, separators=(",", ":"), default=str)


def sha(obj):
    return hashlib.sha256(canon(obj).encode()).hexdigest()


def factors_by_id(ast):
    return {f["id"]: f for f in ast["factors"]}


def iter_blocks(b):
    """Yield every block expression node, outermost first."""
    yield b
    k = b["kind"]
    if k == "repeat":
        yield from iter_blocks(b["block"])
    elif k == "merge":
        for x in b["blocks"]:
            yield from iter_blocks(x)
    elif k == "nest":
        yield from iter_blocks(b["outer"])
        yield from iter_blocks(b["inner"])


def iter_constraints(b):
    for blk in iter_blocks(b):
        for c in blk.get("constraints", []):
            yield blk, c


def block_design_ids(b):
    """Design factor ids of a block expression in the documented order (union, first occurrence)."""
    k = b["kind"]
    if k in ("cross", "multicross"):
        return list(b["design"])
    if k == "repeat":
        return block_design_ids(b["block"])
    out = []
    subs = b["blocks"] if k == "merge" else [b["outer"], b["inner"]]
    for s in subs:
        for fid in block_design_ids(s):
            if fid not in out:
                out.append(fid)
    return out


def block_crossings(b):
    k = b["kind"]
    if k == "cross":
        return [list(b["crossing"])] if b["crossing"] else []
    if k == "multicross":
        return [list(c) for c in b["crossings"] if c]
    if k == "repeat":
        return block_crossings(b["block"])
    subs = b["blocks"] if k == "merge" else [b["outer"], b["inner"]]
    out = []
    for s in subs:
        out.extend(block_crossings(s))
    return out


def skeleton(ast):
    """Structure of a design with names erased: used to count distinct designs."""
    fb = factors_by_id(ast)
    idx = {f["id"]: i for i, f in enumerate(ast["factors"])}

    def fsk(f):
        if f["kind"] == "basic":
            return ("b", tuple(w for _, w in f["levels"]))
        if f["kind"] == "derived":
            w = f["window"]
            return ("d", w["kind"], w["width"], w["stride"], w["start"], tuple(idx[a] for a in f["args"]),
                    tuple((l.get("weight", 1), bool(l.get("else")), len(l.get("table", []))) for l in f["levels"]))
        return ("c", canon(f.get("dist")))

    def csk(c):
        t = c.get("target")
        return (c["kind"], c.get("k"), c.get("index"), c.get("n"),
                (idx[t[0]], fb[t[0]]["kind"], len(t)) if t else None,
                tuple(idx[x] for x in c.get("factors", [])) if c.get("factors") else (idx[c["factor"]] if c.get("factor") else None))

    def bsk(b):
        k = b["kind"]
        cs = tuple(csk(c) for c in b.get("constraints", []))
        if k == "cross":
            return (k, tuple(idx[i] for i in b["design"]), tuple(idx[i] for i in b["crossing"]), cs, b.get("rcc", True))
        if k == "multicross":
            return (k, tuple(idx[i] for i in b["design"]), tuple(tuple(idx[i] for i in c) for c in b["crossings"]), cs,
                    b.get("rcc", True), b.get("mode"), b.get("alignment"))
        if k == "repeat":
            return (k, bsk(b["block"]), cs)
        if k == "merge":
            return (k, tuple(bsk(x) for x in b["blocks"]), cs, b.get("mode"), b.get("alignment"))
        return (k, bsk(b["outer"]), bsk(b["inner"]), cs)

    return hashlib.sha1(repr((tuple(fsk(f) for f in ast["factors"]), bsk(ast["block"]))).encode()).hexdigest()[:16]


def clone(x):
    return copy.deepcopy(x)


def describe(ast, maxlen=400):
    """Short human-readable rendering for evidence samples."""
    fb = factors_by_id(ast)
    parts = []
    for f in ast["factors"]:
        if f["kind"] == "basic":
            parts.append("%s=%s" % (f["name"], "/".join(("%r" % (n,) if not isinstance(n, str) else n) if w == 1 else "%s*%d" % (n, w) for n, w in f["levels"])))
        elif f["kind"] == "derived":
            w = f["window"]
            parts.append("%s=%s[w%d,s%d,st%s](%s)->%s" % (f["name"], w["kind"], w["width"], w["stride"], w["start"],
                                                           ",".join(fb[a]["name"] for a in f["args"]),
                                                           "/".join(l["name"] for l in f["levels"])))
        else:
            parts.append("%s~%s" % (f["name"], f["dist"].get("kind")))

    def cdesc(c):
        k = c["kind"]
        if k == "mintrials":
            return "MinTrials(%d)" % c["n"]
        if k in ("sequential",):
            return "Sequential(%s)" % fb[c["factor"]]["name"]
        if k == "latinsquare":
            return "LatinSquare(%s)" % ",".join(fb[x]["name"] for x in c["factors"])
        t = c["target"]
        tn = fb[t[0]]["name"] + (":" + str(t[1]) if len(t) > 1 else "")
        if k == "exclude":
            return "Exclude(%s)" % tn
        if k == "pin":
            return "Pin(%d,%s)" % (c["index"], tn)
        return "%s(%d,%s)" % (k, c["k"], tn)

    def bdesc(b):
        k = b["kind"]
        cs = ",".join(cdesc(c) for c in b.get("constraints", []) if c["kind"] != "ccons")
        if k == "cross":
            return "Cross(x[%s];%s%s)" % (",".join(fb[i]["name"] for i in b["crossing"]), cs, "" if b.get("rcc", True) else ";rcc=F")
        if k == "multicross":
            return "Multi(%s;%s;%s,%s)" % ("|".join(",".join(fb[i]["name"] for i in c) for c in b["crossings"]), cs, b.get("mode"), b.get("alignment"))
        if k == "repeat":
            return "Repeat(%s;%s)" % (bdesc(b["block"]), cs)
        if k == "merge":
            return "Merge(%s;%s;%s,%s)" % ("+".join(bdesc(x) for x in b["blocks"]), cs, b.get("mode"), b.get("alignment"))
        return "Nest(%s>%s;%s)" % (bdesc(b["outer"]), bdesc(b["inner"]), cs)

    s = "; ".join(parts) + " :: " + bdesc(ast["block"])
    return s if len(s) <= maxlen else s[:maxlen] + "..."
