"""Instrumentation of RandomGen from the outside (DESIGN.md C04-C07): per-attempt candidate key, exact probability
of the draws that produced it (from the ranges the library itself passed to randrange), accepted/rejected."""
from fractions import Fraction

from sweetpea._internal.sampling_strategy import random as M_random

from . import world as W


class RGTrace:
    def __init__(self):
        self.attempts = []      # {key, prob, accepted}
        self.metrics = None
        self.enumerator = None
        self.possible_keys = None
        self.rounds = 0
        self.leftover = 0
        self.instrumented = True


def possible_keys_of(e, blk):
    T = blk.trials_per_sample()
    rounds = (T - e._preamble_size) // e.crossing_size
    return e.preamble_solution_count() * pow(e.solution_count(), rounds) * e.leftover_solution_count()


def run_randomgen(w, blk, n, acceptable_error=0, tr=None):
    """synthesize_trials(blk, n, RandomGen) inside world w with the enumerator instrumented.
    Returns (result, exc, RGTrace)."""
    import sweetpea as sp
    tr = tr if tr is not None else RGTrace()
    E = getattr(M_random, "UCSolutionEnumerator", None)
    RG = M_random.RandomGen
    # The per-attempt instrumentation reaches for private names.  When one of them is not there (a refactoring of the
    # library), the call still runs - un-instrumented - and the caller decides what it can still judge (tr.instrumented).
    names_ok = (E is not None and all(hasattr(E, n) for n in ("generate_random_samples", "random_components", "extract_sequence_key"))
                and "_RandomGen__are_constraints_violated" in RG.__dict__ and "sample" in RG.__dict__)
    tr.instrumented = names_ok
    if not names_ok:
        w.count("rg.uninstrumented")
        try:
            res = sp.synthesize_trials(blk, n, sp.RandomGen)
            w.log.append(("op", "RandomGen", n, len(res), W._sha1(repr(res))))
            return res, None, tr
        except W.HarnessCap:
            raise
        except BaseException as e:   # noqa
            if isinstance(e, (KeyboardInterrupt, SystemExit)) or type(e).__name__ in ("CaseTimeout", "InnerTimeout"):
                raise
            w.log.append(("op", "RandomGen", n, "raise", type(e).__name__))
            return None, e, tr
    orig_grs = E.generate_random_samples
    orig_rc = E.random_components
    orig_viol = RG.__dict__["_RandomGen__are_constraints_violated"]
    orig_sample = RG.__dict__["sample"]
    rc_marks = []

    def random_components(self, shape, trial_count, leftover):
        start = len(w.rng.draw_log)
        r = orig_rc(self, shape, trial_count, leftover)
        rc_marks.append((start, len(w.rng.draw_log)))
        return r

    def generate_random_samples(self, nrounds, leftover, sampled):
        tr.enumerator = self
        w.rng.mark()
        del rc_marks[:]
        out = orig_grs(self, nrounds, leftover, sampled)
        per_attempt = nrounds + (1 if leftover > 0 else 0)
        marks = rc_marks[-per_attempt:] if per_attempt else []
        log = w.rng.draw_log
        if marks:
            first = marks[0][0] - 1       # the preamble randrange right before the first random_components
            last = marks[-1][1]
        else:
            first, last = len(log) - 1, len(log)
        prob = Fraction(1)
        for (lo, hi, v) in log[first:last]:
            prob *= Fraction(1, hi - lo)
        key = self.extract_sequence_key(out)
        tr.attempts.append({"key": key, "prob": prob, "accepted": None, "retries": (len(rc_marks) // per_attempt - 1) if per_attempt else 0})
        w.count("rg.attempt")
        return out

    def viol(block, sample, enumerator, rounds, leftover, acceptable_error):
        r = orig_viol.__func__(block, sample, enumerator, rounds, leftover, acceptable_error)
        if tr.attempts:
            tr.attempts[-1]["accepted"] = not r
        w.count("rg.rejected" if r else "rg.accepted")
        return r

    def sample(block, sample_count):
        res = orig_sample.__func__(block, sample_count)
        tr.metrics = res.metrics
        return res

    E.generate_random_samples = generate_random_samples
    E.random_components = random_components
    setattr(RG, "_RandomGen__are_constraints_violated", staticmethod(viol))
    RG.sample = staticmethod(sample)
    try:
        try:
            res = sp.synthesize_trials(blk, n, sp.RandomGen)
            exc = None
            w.log.append(("op", "RandomGen", n, len(res), W._sha1(repr(res))))
        except W.HarnessCap:
            raise
        except BaseException as e:   # noqa
            if isinstance(e, (KeyboardInterrupt, SystemExit)) or type(e).__name__ in ("CaseTimeout", "InnerTimeout"):
                raise
            res, exc = None, e
            w.log.append(("op", "RandomGen", n, "raise", type(e).__name__))
    finally:
        E.generate_random_samples = orig_grs
        E.random_components = orig_rc
        setattr(RG, "_RandomGen__are_constraints_violated", orig_viol)
        RG.sample = orig_sample
    if tr.enumerator is not None:
        try:
            e = tr.enumerator
            T = blk.trials_per_sample()
            rounds = (T - e._preamble_size) // e.crossing_size
            tr.possible_keys = e.preamble_solution_count() * pow(e.solution_count(), rounds) * e.leftover_solution_count()
            tr.rounds = rounds
            tr.leftover = (T - e._preamble_size) % e.crossing_size
        except AttributeError:
            tr.possible_keys = None
            tr.instrumented = False
            w.count("rg.uninstrumented")
    return res, exc, tr
