"""Fake sampler peers (pycmsgen / pyunigen / their CLI) for SimWorld (DESIGN.md 3.3)."""
import os

import pycmsgen as _real_pycmsgen
import pyunigen as _real_pyunigen

from sweetpea._internal.core.generate.tools import unigen as M_unigen

from .world import (enumerate_models, parse_dimacs_lenient, CompletedProcessLike, HarnessCap, _sha1, CMSGEN_CONFL_LIMIT)


def _satisfiable(clauses):
    import pycryptosat
    s = pycryptosat.Solver(confl_limit=300000)
    for c in clauses:
        s.add_clause(c)
    sat = s.solve()[0]
    if sat is None:
        raise HarnessCap("solver conflict limit")
    return bool(sat)


def ideal_uniform_samples(w, clauses, nvars, sampling_set, num):
    """Stand-in for UniGen's sampling: the ideal it approximates.  Projected models are enumerated (bounded) and `num`
    (sometimes one or two more: pyunigen documents that it may return more than asked) are drawn uniformly with
    replacement from the run's peer stream; beyond the bound each sample is an arbitrary ('walk') model.
    The genuine pyunigen is not called in-process: it can spin forever inside C code and it terminates the whole
    interpreter on an unsatisfiable formula."""
    if not _satisfiable(clauses):
        return None
    rng = w.stream("unigen-%d" % w.counters.get("peer.solve", 0))
    want = num + (rng.choice([0, 0, 0, 1, 2]) if num > 0 else 0)
    try:
        vars_, models = enumerate_models(clauses, nvars, 600, tuple(sampling_set))
    except HarnessCap:
        out = []
        for _ in range(want):
            m = w.peer.solve(clauses, nvars)
            w.counters["peer.solve"] -= 1
            out.append([v if m[v] else -v for v in sampling_set])
        return out
    return [[v if b else -v for v, b in zip(vars_, models[rng.randrange(len(models))])] for _ in range(want)]


class FakePycmsgen:
    def __init__(self, world):
        outer_world = world

        class Solver:
            def __init__(self, seed=0, **k):
                self.seed = int(seed)
                self.clauses = []
                outer_world.count("cmsgen.new")

            def add_clause(self, clause):
                f = outer_world.peer_fault("add_clause")
                if f and f != "unknown":
                    raise f
                self.clauses.append(list(clause))

            def solve(self, assumptions=None):
                w = outer_world
                f = w.peer_fault("solve")
                if f and f != "unknown":
                    raise f
                w.record_peer_input("pycmsgen", self.clauses, None)
                w.count("peer.solve")
                mode = w.knobs["sampler"]
                n = max([abs(l) for c in self.clauses for l in c] + [0])
                if mode == "cycle":
                    vars_, models = w.model_cache(self.clauses, n)
                    if not models:
                        w.peer_models.append(None)
                        w.log.append(("peer.sample", "pycmsgen", "UNSAT"))
                        return (False, None)
                    m = models[self.seed % len(models)]
                    model = [None] + list(m)
                elif mode == "walk":
                    model = w.peer.solve(self.clauses)
                    w.counters["peer.solve"] -= 1
                    if model is None:
                        w.peer_models.append(None)
                        return (False, None)
                else:
                    s = _real_pycmsgen.Solver(seed=self.seed, confl_limit=CMSGEN_CONFL_LIMIT)
                    for c in self.clauses:
                        s.add_clause(c)
                    sat, sol = s.solve()
                    if sat is None:
                        raise HarnessCap("sampler conflict limit")
                    if not sat:
                        w.peer_models.append(None)
                        w.log.append(("peer.sample", "pycmsgen", "UNSAT"))
                        return (False, None)
                    model = [None] + [bool(x) for x in sol[1:]]
                w.peer_models.append(model)
                w.log.append(("peer.sample", "pycmsgen", self.seed, _sha1(repr(model))))
                return (True, tuple(model))

        self.Solver = Solver


class FakePyunigen:
    def __init__(self, world):
        outer_world = world

        class Sampler:
            def __init__(self, *a, **k):
                self.clauses = []

            def add_clause(self, clause):
                f = outer_world.peer_fault("add_clause")
                if f and f != "unknown":
                    raise f
                self.clauses.append(list(clause))

            def sample(self, num=1, sampling_set=None):
                w = outer_world
                f = w.peer_fault("sample")
                if f and f != "unknown":
                    raise f
                w.record_peer_input("pyunigen", self.clauses, sampling_set)
                w.count("peer.solve")
                mode = w.knobs["sampler"]
                n = max([abs(l) for c in self.clauses for l in c] + [0])
                if mode == "cycle":
                    vars_, models = w.model_cache(self.clauses, n, tuple(sampling_set))
                    if not models:
                        w.log.append(("peer.sample", "pyunigen", "UNSAT"))
                        return (0, 0, [])
                    start = w.unigen_cursor
                    out = []
                    for i in range(num):
                        m = models[(start + i) % len(models)]
                        out.append([v if b else -v for v, b in zip(vars_, m)])
                    w.unigen_cursor = start + num
                    w.log.append(("peer.sample", "pyunigen", num, _sha1(repr(out))))
                    w.unigen_samples.extend(out)
                    return (len(models), 0, out)
                samples = ideal_uniform_samples(w, self.clauses, n, list(sampling_set), num)
                if samples is None:
                    # genuine pyunigen 2.5.8 prints "Formula was UNSAT" and terminates the whole process here;
                    # the fake answers what the library's wrapper is written to expect from a well-behaved peer
                    w.log.append(("peer.sample", "pyunigen", "UNSAT"))
                    return (0, 0, [])
                w.log.append(("peer.sample", "pyunigen", num, len(samples), _sha1(repr(samples))))
                w.unigen_samples.extend(samples)
                return (len(samples), 0, samples)

        self.Sampler = Sampler


def fake_sampler_cli(world):
    def run(command, capture_output=True, **kw):
        w = world
        w.count("cli.run")
        exe = os.path.basename(str(command[0]))
        fname = str(command[1])
        text = w.fs.read(fname)
        opts = dict(a[2:].split("=", 1) for a in command[2:] if a.startswith("--") and "=" in a)
        num = int(opts.get("samples", "1"))
        seed = int(opts.get("seed", "0"))
        header, clauses, ind = parse_dimacs_lenient(text)
        nvars = max([abs(l) for c in clauses for l in c] + [header[0] if header else 0])
        if not ind:
            ind = list(range(1, nvars + 1))
        w.record_peer_input("cli-" + ("cmsgen" if "cmsgen" in exe else "unigen"), clauses, ind)
        w.count("peer.solve")
        k = w.peer_fault("sample")
        if k is not None and k != "unknown":
            return CompletedProcessLike(command, 139, b"", b"crash (injected)")
        if "cmsgen" in exe:
            lines = []
            for i in range(num):
                s = _real_pycmsgen.Solver(seed=seed + i, confl_limit=CMSGEN_CONFL_LIMIT)
                for c in clauses:
                    s.add_clause(c)
                sat, sol = s.solve()
                if sat is None:
                    raise HarnessCap("sampler conflict limit")
                if not sat:
                    # what the real binary does on UNSAT is not observable here; be as lenient as the library's
                    # wrapper allows: sample file exists (empty) and stdout carries the message the wrapper looks for
                    w.fs.write(opts["samplefile"], "")
                    return CompletedProcessLike(command, 20, b"s UNSATISFIABLE\nc The input formula is unsatisfiable.\n")
                # real cmsgen writes full models, one per line, terminated by 0
                lines.append(" ".join(str(v if (v < len(sol) and sol[v]) else -v) for v in range(1, nvars + 1)) + " 0")
            w.fs.write(opts["samplefile"], "\n".join(lines) + "\n")
            w.log.append(("peer.sample", "cli-cmsgen", num, _sha1("\n".join(lines))))
            return CompletedProcessLike(command, 10, b"c CMSGen (sim)\n")
        samples = ideal_uniform_samples(w, clauses, nvars, ind, num)
        if not samples:
            return CompletedProcessLike(command, 0, b"c The input formula is unsatisfiable.\n")
        listed = []
        prng = w.stream("unigen-prelist-%d" % w.counters.get("peer.solve", 0))
        if prng.random() < 0.6:
            # the one thing the library's reader says about the executable's output beyond "comment lines start with c":
            # when the solution space is small the executable announces "we found only N, ..." and lists those N
            # solutions before the samples proper (sample_uniform drops the first N solution lines).  The genuine
            # binary cannot be run here; the fake speaks the protocol the reader is written for, on small spaces only.
            try:
                vars_, models = enumerate_models(clauses, nvars, 6, tuple(ind))
                listed = [[v if b else -v for v, b in zip(vars_, m)] for m in models]
            except HarnessCap:
                listed = []
        fmt = lambda smp: "v " + " ".join(str(l) for l in smp) + " 0:1\n"
        out = "c UniGen (sim)\n"
        if listed:
            w.count("peer.unigen-prelisted")
            out += "c [appmc] we found only %d, so exact sampling is used\n" % len(listed) + "".join(fmt(m) for m in listed)
            out += "c [unigen] samples follow\n"
        out += "".join(fmt(smp) for smp in samples)
        w.unigen_samples.extend(samples)
        w.log.append(("peer.sample", "cli-unigen", num, len(listed), _sha1(out)))
        return CompletedProcessLike(command, 0, out.encode())
    return run


def install(world):
    kn = world.knobs
    world.unigen_cursor = 0
    world.unigen_samples = []
    cache = {}

    def model_cache(clauses, n, project=None):
        key = (_sha1(repr(clauses)), project)
        if key not in cache:
            cache[key] = enumerate_models(clauses, n, world.model_cap, project)
        return cache[key]

    world.model_cache = model_cache
    if not hasattr(world, "model_cap"):
        world.model_cap = 5000
    world._set(M_unigen, "pycmsgen", FakePycmsgen(world))
    world._set(M_unigen, "pyunigen", FakePyunigen(world))
    lib = kn["transport"] == "lib"
    world._set(M_unigen, "HAS_PYCMSGEN", lib)
    world._set(M_unigen, "HAS_PYUNIGEN", lib)
    world._set(M_unigen, "run", fake_sampler_cli(world))

    def no_download(*a, **k):
        world.count("ensure_executable")
    world._set(M_unigen, "ensure_executable_available", no_download)
