"""Reference semantics for design ASTs (DESIGN.md section 5.2 and Appendix B).

Written from the documentation (docs/_source/api/*.rst, guide/usage.rst). It never
imports sweetpea and works on the AST only.  Deliberately naive: explicit loops over
trials, no variable layout.

Public entry points
    elaborate(ast)        -> Model   (status, T, crossings, scoped constraints, doc gaps)
    valid(model, seq)     -> list of violated-clause strings (empty = valid)
    enumerate_valid(model, cap) -> Counter {printed sequence (tuple): multiplicity} or None if cap hit
    print_key(model, seq) -> hashable printed form of a sequence over the user-declared discrete factors
"""
import itertools
import math
from collections import Counter

from . import dast


class TooBig(Exception):
    pass


# ---------------------------------------------------------------------------
# factors


class Fx:
    __slots__ = ("id", "name", "kind", "levels", "weights", "args", "width", "stride", "start",
                 "complex", "tables", "else_name", "wkind", "depth")

    def __repr__(self):
        return "Fx(%s)" % self.name


def _norm_row(row, width):
    if width == 1:
        return tuple(row)
    return tuple(tuple(r) for r in row)


def build_factors(ast):
    """Return {fid: Fx} for the discrete factors, in dependency order of the AST list."""
    out = {}
    for f in ast["factors"]:
        if f["kind"] == "continuous":
            continue
        x = Fx()
        x.id = f["id"]
        x.name = f["name"]
        x.kind = f["kind"]
        if f["kind"] == "basic":
            x.levels = [n for n, _ in f["levels"]]
            x.weights = {n: w for n, w in f["levels"]}
            x.args = []
            x.width, x.stride, x.start = 1, 1, 0
            x.complex = False
            x.tables = None
            x.else_name = None
            x.wkind = None
            x.depth = 0
        else:
            w = f["window"]
            x.wkind = w["kind"]
            x.levels = [l["name"] for l in f["levels"]]
            x.weights = {l["name"]: l.get("weight", 1) for l in f["levels"]}
            x.args = [out[a] for a in f["args"]]
            x.width = w["width"]
            x.stride = w["stride"]
            default_start = x.width - 1
            for a in x.args:
                ready = a.start if (a.kind == "derived" and a.complex) else 0
                default_start = max(default_start, ready + x.width - 1)
            x.start = default_start if w["start"] is None else w["start"]
            x.complex = (x.width > 1 or x.stride > 1 or x.start > 0
                         or (x.args[0].kind == "derived" and x.args[0].complex))
            x.tables = {}
            x.else_name = None
            for l in f["levels"]:
                if l.get("else"):
                    x.else_name = l["name"]
                else:
                    x.tables[l["name"]] = set(_norm_row(r, x.width) for r in l["table"])
            x.depth = 1 + max(a.depth for a in x.args)
        out[x.id] = x
    return out


def applies(f, t):
    if f.kind == "basic":
        return True
    return t >= f.start and (t - f.start) % f.stride == 0


def arg_value(seq, a, u):
    """Value of argument factor a at trial u as seen by a window: level name or None."""
    if u < 0:
        return None
    if a.kind == "derived" and not applies(a, u):
        return None
    return seq[a.id][u]


def window_key(seq, f, t, group=1):
    """The argument list of derived factor f at trial t (B.1) as a hashable key.
    `group` is the sustain length of f under Nest (window steps are groups)."""
    if f.width == 1:
        return tuple(arg_value(seq, a, t) for a in f.args)
    return tuple(tuple(arg_value(seq, a, t - (f.width - 1 - i) * group) for i in range(f.width)) for a in f.args)


def matching_levels(f, key):
    m = [n for n in f.levels if n != f.else_name and key in f.tables[n]]
    if not m and f.else_name is not None:
        m = [f.else_name]
    return m


def _none_possible_lib(f, a, i):
    ready = a.start if (a.kind == "derived" and a.complex) else 0
    return ready > f.start - f.width + i + 1


def key_universe(f, broad):
    """All argument lists the derived factor must classify.
    broad=True: None allowed independently at each position where the first applicable trial lacks a value.
    broad=False: only None patterns that really occur at some applicable trial."""
    pos = [(a, i) for a in f.args for i in range(f.width)]
    if broad:
        patterns = [tuple(_none_possible_lib(f, a, i) for a, i in pos)]
        pattern_sets = [[(False, True) if p else (False,) for p in patterns[0]]]
        pats = set()
        for combo in itertools.product(*pattern_sets[0]):
            pats.add(combo)
    else:
        pats = set()
        t = f.start
        for _ in range(64):
            pat = []
            for a, i in pos:
                u = t - (f.width - 1) + i
                undefined = u < 0 or (a.kind == "derived" and a.complex and u < a.start)
                pat.append(undefined)
            pats.add(tuple(pat))
            if not any(pat):
                break
            t += f.stride
    keys = set()
    for pat in pats:
        choices = [([None] if und else a.levels) for (a, i), und in zip(pos, pat)]
        for combo in itertools.product(*choices):
            if f.width == 1:
                keys.add(tuple(combo))
            else:
                keys.add(tuple(tuple(combo[j * f.width:(j + 1) * f.width]) for j in range(len(f.args))))
    return keys


def classify_derived(f):
    """'ok' | 'rejected' (two levels accept one window) | 'erroneous' (some window accepted by none),
    under the broad and the strict universe."""
    res = []
    for broad in (True, False):
        st = "ok"
        for key in key_universe(f, broad):
            m = [n for n in f.levels if n != f.else_name and key in f.tables[n]]
            if len(m) > 1:
                st = "rejected"
                break
            if not m and f.else_name is None:
                st = "erroneous"
        res.append(st)
    return res


# ---------------------------------------------------------------------------
# model


class Cx:
    """One crossing of the flat model."""
    __slots__ = ("fids", "size", "pre", "removed", "cweights", "N", "start", "chunk", "rcc", "group")


class Con:
    __slots__ = ("kind", "fid", "level", "k", "index", "windows", "cid", "fids", "group")

    def __repr__(self):
        return "Con(%s,%s,%s,k=%s,i=%s,w=%s)" % (self.kind, self.fid, self.level, self.k, self.index, self.windows)


class Model:
    def __init__(self):
        self.status = "ok"      # ok | rejected | erroneous | empty
        self.reason = ""
        self.gaps = []          # undocumented-region tags: reference oracles are skipped when non-empty
        self.T = None
        self.factors = {}
        self.design = []        # discrete factor ids in block design order
        self.crossings = []
        self.cons = []
        self.groups = {}        # fid -> group length (Nest)
        self.excluded = set()   # (fid, level)
        self.user_names = []    # names of user-declared discrete factors in design order
        self.mult_factors = []  # uncrossed weighted basic factors (B.8)


def _single_trial_possible(model, fixed, crossing_fids):
    """Is there a single-trial assignment of all basic design factors consistent with `fixed`
    ({fid: level}) in which no excluded level occurs (B.2)?  Complex derived factors are free."""
    F = model.factors
    basics = [fid for fid in model.design if F[fid].kind == "basic"]
    simple_derived = sorted([fid for fid in model.design if F[fid].kind == "derived" and not F[fid].complex],
                            key=lambda i: F[i].depth)
    for fid, lv in fixed.items():
        if (fid, lv) in model.excluded:
            return False
    choices = []
    for fid in basics:
        if fid in fixed:
            choices.append([fixed[fid]])
        else:
            choices.append([l for l in F[fid].levels if (fid, l) not in model.excluded])
    for combo in itertools.product(*choices):
        trial = dict(zip(basics, combo))
        ok = True
        for did in simple_derived:
            d = F[did]
            if any((a.id not in trial) for a in d.args):
                # argument is a complex factor or not in design: treat as unconstrained
                continue
            key = tuple(trial[a.id] for a in d.args)
            m = matching_levels(d, key)
            if len(m) != 1:
                ok = False
                break
            trial[did] = m[0]
            if (did, m[0]) in model.excluded:
                ok = False
                break
            if did in fixed and fixed[did] != m[0]:
                ok = False
                break
        if ok:
            return True
    return False


def _single_trial_possible_excl_only(model, fixed, all_basic_levels=False):
    """Like _single_trial_possible, but derived factors only matter through *excluded* derived levels
    (rule 3 of B.2): True when the combination stays possible under that weaker reading.
    all_basic_levels: the uncrossed basic factors range over all their levels, excluded ones too (one Exclude at a time)."""
    F = model.factors
    excl_derived = [fid for (fid, lv) in model.excluded if F[fid].kind == "derived" and not F[fid].complex]
    if not excl_derived:
        return True
    basics = [fid for fid in model.design if F[fid].kind == "basic"]
    simple_derived = sorted([fid for fid in model.design if F[fid].kind == "derived" and not F[fid].complex],
                            key=lambda i: F[i].depth)
    choices = []
    for fid in basics:
        choices.append([fixed[fid]] if fid in fixed else [l for l in F[fid].levels if all_basic_levels or (fid, l) not in model.excluded])
    for combo in itertools.product(*choices):
        trial = dict(zip(basics, combo))
        ok = True
        for did in simple_derived:
            d = F[did]
            if any((a.id not in trial) for a in d.args):
                continue
            m = matching_levels(d, tuple(trial[a.id] for a in d.args))
            if len(m) != 1:
                continue
            trial[did] = m[0]
            if (did, m[0]) in model.excluded:
                ok = False
                break
        if ok:
            return True
    return False


def _removed_one_rule_at_a_time(model, fids):
    """Combinations of the crossing `fids` removed by the documented rules applied one at a time: (i) it contains an excluded
    level; (ii) it contains a level of a within-trial derived factor that no completion by the uncrossed basic factors (all
    their levels) yields; (iii) some excluded level of a within-trial derived factor outside the crossing is yielded by every
    completion.  Derived arguments are computed from the basic factors, never chosen freely."""
    F = model.factors
    free_b = [fid for fid in model.design if F[fid].kind == "basic" and fid not in fids]
    simple_derived = sorted([fid for fid in model.design if F[fid].kind == "derived" and not F[fid].complex], key=lambda i: F[i].depth)
    out = set()
    for combo in itertools.product(*[F[fid].levels for fid in fids]):
        fixed = dict(zip(fids, combo))
        rem = any((fid, lv) in model.excluded for fid, lv in fixed.items())
        if not rem:
            comps = []
            for free in itertools.product(*[F[b_].levels for b_ in free_b]):
                trial = {fid: lv for fid, lv in fixed.items() if F[fid].kind == "basic"}
                trial.update(zip(free_b, free))
                for did in simple_derived:
                    d = F[did]
                    if any(a.id not in trial for a in d.args):
                        continue
                    mm = matching_levels(d, tuple(trial[a.id] for a in d.args))
                    if len(mm) == 1:
                        trial[did] = mm[0]
                comps.append(trial)
            for fid, lv in fixed.items():
                d = F[fid]
                if d.kind == "derived" and not d.complex and not any(c_.get(fid) == lv for c_ in comps):
                    rem = True
            for (eid, elv) in model.excluded:
                e = F[eid]
                if e.kind == "derived" and not e.complex and eid not in fixed and comps and all(c_.get(eid) == elv for c_ in comps):
                    rem = True
        if rem:
            out.add(combo)
    return out


def _crossing_spec(model, fids, rcc):
    F = model.factors
    c = Cx()
    c.fids = list(fids)
    c.rcc = rcc
    c.group = 1
    c.removed = set()
    c.cweights = {}
    full = 1
    for fid in fids:
        full *= sum(F[fid].weights.values())
    size = 0
    for combo in itertools.product(*[F[fid].levels for fid in fids]):
        fixed = dict(zip(fids, combo))
        w = 1
        for fid, lv in fixed.items():
            w *= F[fid].weights[lv]
        if not _single_trial_possible(model, fixed, fids):
            c.removed.add(combo)
        else:
            c.cweights[combo] = w
            size += w
    c.size = size
    # the documented removal rule looks at one excluded or impossible level at a time (B.2); the set computed above asks
    # whether one trial can show the combination with ALL exclusions and definitions respected at once.  Where the two
    # differ (two Excludes that are only jointly unsatisfiable, an Exclude of an uncrossed basic level that leaves no
    # completion avoiding another Exclude, ...) the documentation does not say which is meant: a gap, not an oracle
    if _removed_one_rule_at_a_time(model, fids) != c.removed:
        model.gaps.append("joint-infeasible-combination")
    c.pre = max([F[fid].start for fid in fids if F[fid].kind == "derived" and F[fid].complex] + [0])
    return c


def _collect(ast, b, model, scope):
    """Recursively gather (constraint, scope) pairs.  scope None = whole sequence."""
    pass


def elaborate(ast):
    """Flat model of a design per the documentation.  Combinators: cross, multicross, repeat, merge, nest
    (nest only in the preamble-free form of B.7)."""
    model = Model()
    try:
        F = build_factors(ast)
    except KeyError as e:
        model.status = "rejected"
        model.reason = "derived factor argument not defined: %s" % e
        return model
    model.factors = F
    blk = ast["block"]
    model.design = [fid for fid in dast.block_design_ids(blk) if fid in F]
    model.user_names = [F[fid].name for fid in model.design]
    fb = dast.factors_by_id(ast)

    # ---- derived factor well-formedness (B.1 / R-DER-ERR)
    for fid in model.design:
        f = F[fid]
        if f.kind != "derived":
            continue
        for a in f.args:
            if a.kind == "derived" and a.stride > 1:
                model.status = "rejected"
                model.reason = "argument with stride>1"
                return model
        if f.wkind == "transition" and any(a.kind == "derived" and a.complex for a in f.args):
            # docs: Transition == Window(width 2) whose default start waits for its arguments; code: start is 1
            model.gaps.append("transition-over-complex-arg")
        broad, strict = classify_derived(f)
        if broad != strict:
            model.gaps.append("derived-none-universe")
        cls = broad
        if cls == "rejected":
            model.status = "rejected"
            model.reason = "derived factor %s: two levels accept one window" % f.name
            return model
        if cls == "erroneous" and model.status == "ok":
            model.status = "erroneous"
            model.reason = "derived factor %s: some window accepted by no level" % f.name
        # every basic factor a derived factor depends on must be in the design
        for a in f.args:
            if a.id not in model.design:
                model.gaps.append("derived-arg-not-in-design")

    # ---- excluded levels are global (B.5)
    for _, c in dast.iter_constraints(blk):
        if c["kind"] == "exclude":
            model.excluded.add((c["target"][0], c["target"][1]))

    info = _elab_block(ast, blk, model)
    if model.status == "rejected":
        return model
    model.T = info["T"]
    model.crossings = info["crossings"]
    model.cons = info["cons"]
    model.groups = info.get("groups", {})
    if info.get("empty") and model.status == "ok":
        model.status = "empty"
        model.reason = info["empty"]

    crossed_everywhere = None
    allc = [set(c.fids) for c in model.crossings]
    for fid in model.design:
        f = F[fid]
        if f.kind == "basic" and any(w > 1 for w in f.weights.values()):
            in_any = any(fid in s for s in allc)
            in_all = all(fid in s for s in allc) if allc else False
            if not in_any:
                model.mult_factors.append(fid)
            elif not in_all:
                # docs: "not in all crossings"; code desugars only when in no crossing
                model.gaps.append("weighted-factor-in-some-crossings")
    _doc_gaps(ast, model)
    return model


def _mk_con(model, c, windows, group=1):
    F = model.factors
    out = []
    k = c["kind"]
    if k in ("mintrials", "ccons"):
        return out
    if k == "sequential":
        x = Con()
        x.kind, x.fid, x.level, x.k, x.index, x.windows, x.cid, x.fids, x.group = k, c["factor"], None, None, None, windows, c.get("id"), None, group
        return [x]
    if k == "latinsquare":
        x = Con()
        x.kind, x.fid, x.level, x.k, x.index, x.windows, x.cid, x.fids, x.group = k, None, None, None, None, windows, c.get("id"), list(c["factors"]), group
        return [x]
    t = c["target"]
    levels = [t[1]] if len(t) > 1 else list(F[t[0]].levels)
    for lv in levels:
        x = Con()
        x.kind, x.fid, x.level = k, t[0], lv
        x.k = c.get("k")
        x.index = c.get("index")
        x.windows = windows
        x.cid = c.get("id")
        x.fids = None
        x.group = group
        out.append(x)
    return out


def _mintrials(b):
    return [c["n"] for c in b.get("constraints", []) if c["kind"] == "mintrials"]


def _elab_block(ast, b, model):
    """Returns dict(T, p, crossings=[Cx], cons=[Con], mins=[int], alignment, empty=reason|None,
    own=[(constraint_ast)] constraints handed to this very block)."""
    F = model.factors
    k = b["kind"]
    if k in ("cross", "multicross"):
        crossings_ids = dast.block_crossings(b)
        rcc = b.get("rcc", True)
        for cids in crossings_ids:
            for fid in cids:
                if fid not in b["design"]:
                    model.status = "rejected"
                    model.reason = "crossed factor not in design"
                    return {}
                if F[fid].kind == "derived" and F[fid].stride > 1:
                    model.status = "rejected"
                    model.reason = "stride>1 factor in crossing"
                    return {}
        specs = [_crossing_spec(model, cids, rcc) for cids in crossings_ids]
        empty = None
        for s in specs:
            if s.removed and rcc:
                empty = "complete crossing required but combinations are excluded or impossible"
            if s.size == 0:
                model.gaps.append("crossing-size-zero")
        if rcc:
            # a level of a crossed derived factor - of any window kind - that no window of inputs can ever select cannot take
            # part in a complete crossing (the library reports the crossing as not satisfiable and returns nothing)
            for cids in crossings_ids:
                for fid in cids:
                    f = F[fid]
                    if f.kind == "derived":
                        universe = key_universe(f, False)
                        for lv in f.levels:
                            if not any(matching_levels(f, key) == [lv] for key in universe):
                                empty = empty or "crossed derived level %s:%s matches no window; complete crossing required" % (f.name, lv)
        mins = _mintrials(b)
        min_trials = max(mins + [0])
        if k == "cross":
            mode, alignment = "weight", "equal preamble"
        else:
            mode, alignment = b.get("mode", "equal"), b.get("alignment", "equal preamble")
        T, empty2 = _layout(model, specs, min_trials, mode, alignment, fresh=True)
        if model.status == "rejected":
            return {}
        cons = []
        for c in b.get("constraints", []):
            cons.extend(_mk_con(model, c, None))
        p = specs[0].start if specs else 0
        return {"T": T, "p": (specs[0].pre if specs else 0), "crossings": specs, "cons": cons, "mins": mins,
                "alignment": alignment, "empty": empty or empty2, "raw_cons": list(b.get("constraints", [])),
                "scoped": []}
    if k in ("repeat", "merge"):
        subs = [b["block"]] if k == "repeat" else b["blocks"]
        infos = [_elab_block(ast, s, model) for s in subs]
        if model.status == "rejected":
            return {}
        if k == "repeat":
            mode, alignment = "repeat", "equal preamble"
            if b["block"]["kind"] not in ("cross", "multicross", "merge"):
                # Repeat accepts MultiCrossBlock instances only (CrossBlock, MultiCrossBlock, Merge)
                model.status = "rejected"
                model.reason = "Repeat of a non-MultiCrossBlock"
                return {}
        else:
            mode = b.get("mode", "repeat")
            alignment = b.get("alignment") or infos[0]["alignment"]
            for i in infos:
                # a block with a single crossing has nothing to align (documented law: MultiCrossBlock(..., alignment) =
                # Merge of one CrossBlock per crossing with that alignment), so only multi-crossing operands can conflict
                if i["alignment"] != alignment and len(i["crossings"]) > 1:
                    model.status = "rejected"
                    model.reason = "blocks have different alignments"
                    return {}
        specs = []
        cons = []
        mins = list(_mintrials(b))
        empty = None
        for s, i in zip(subs, infos):
            specs.extend(i["crossings"])
            mins.extend(i["mins"])
            if i["mins"] and i["crossings"] and i["T"] != max(c.pre + c.size for c in i["crossings"]):
                # what "one repetition" of a block is whose own MinimumTrials stretches it is not documented
                model.gaps.append("inner-mintrials-under-combinator")
            empty = empty or i["empty"]
            # constraints of the sub-block: scoped to its repetitions (B.6), unless already scoped deeper
            sp, ss = i["p"], i["T"] - i["p"]
            for c in i["cons"]:
                if c.windows is None:
                    c.windows = ("rep", sp, ss)
                cons.append(c)
        for c in b.get("constraints", []):
            if c["kind"] == "exclude" and k == "repeat":
                model.gaps.append("exclude-on-repeat")
            cons.extend(_mk_con(model, c, None))
        min_trials = max(mins + [0])
        T, empty2 = _layout(model, specs, min_trials, mode, alignment, fresh=False)
        if model.status == "rejected":
            return {}
        return {"T": T, "p": (specs[0].pre if specs else 0), "crossings": specs, "cons": cons, "mins": mins,
                "alignment": alignment, "empty": empty or empty2}
    if k == "nest":
        model.gaps.append("nest-reference")   # Nest is checked structurally (C25), not via refsem enumeration
        o = _elab_block(ast, b["outer"], model)
        i = _elab_block(ast, b["inner"], model)
        if model.status == "rejected":
            return {}
        return {"T": o["T"] * i["T"], "p": 0, "crossings": o["crossings"] + i["crossings"], "cons": [], "mins": [],
                "alignment": o["alignment"], "empty": o["empty"] or i["empty"]}
    raise ValueError(k)


def _layout(model, specs, min_trials, mode, alignment, fresh):
    """Trial count (B.3) and per-crossing start/chunk/N (B.4).  `fresh`: crossings are laid out for the first
    time (CrossBlock / MultiCrossBlock); otherwise they keep the replication factor N of their own block
    unless the mode is weight/equal, which recomputes it."""
    empty = None
    if not specs:
        return max(1, min_trials), None
    pres = [s.pre for s in specs]
    if alignment == "equal preamble" and len(set(pres)) > 1:
        model.status = "rejected"
        model.reason = "EQUAL_PREAMBLE with different preambles"
        return None, None
    if alignment == "post preamble":
        T = max(min_trials, max(pres) + max(s.size for s in specs))
        for s in specs:
            s.start = max(pres)
        if len(set(pres)) > 1:
            model.gaps.append("post-preamble-unequal")
    else:
        T = max(min_trials, max(s.pre + s.size for s in specs))
        for s in specs:
            s.start = s.pre
    T = max(T, 1)
    for s in specs:
        if s.size == 0:
            s.N, s.chunk = 1, 1
            continue
        need = math.ceil((T - s.pre) / s.size) if T - s.pre > 0 else 1
        if mode == "repeat":
            if fresh:
                s.N = 1
            # else keep s.N from its own block
            if getattr(s, "N", None) is None:
                s.N = 1
        else:
            old = None if fresh else getattr(s, "N", None)
            if mode == "equal" and need != (1 if fresh or old is None else old):
                model.status = "rejected"
                model.reason = "RepeatMode.EQUAL with different crossing sizes"
                return None, None
            s.N = need
        s.chunk = s.size * s.N
    return T, empty


def _doc_gaps(ast, model):
    """Mark regions the documentation does not settle (DESIGN 5.3 e-h and the ones found while building)."""
    F = model.factors
    blk = ast["block"]
    has_pre = any(c.pre > 0 for c in model.crossings)
    for con in model.cons:
        if con.kind in dast.RUN_KINDS or con.kind in ("pin", "exclude"):
            f = F[con.fid]
            if f.kind == "derived" and f.stride > 1 and con.kind in dast.RUN_KINDS:
                model.gaps.append("run-constraint-on-strided-factor")
        if con.kind == "pin" and con.windows is not None and model.T is not None:
            inr = []
            for (a, b) in con_windows(model, con):
                j = a + con.index if con.index >= 0 else b + con.index
                inr.append(a <= j < b)
            if any(inr) and not all(inr):
                # an index that exists in the full repetitions but not in the cut-short last one
                model.gaps.append("pin-out-of-range-in-partial-repetition")
        if con.kind == "sequential":
            f = F[con.fid]
            fpre = max([c.start for c in model.crossings if con.fid in c.fids] + [0])
            if fpre > 0:
                model.gaps.append("sequential-with-preamble")
            if f.kind == "derived":
                model.gaps.append("sequential-on-derived")
            if con.windows is not None:
                model.gaps.append("sequential-scoped")
        if con.kind == "latinsquare":
            model.gaps.append("latinsquare")
    # a factor crossed together with a factor derived from it through a complex window (5.3 h)
    for c in model.crossings:
        for fid in c.fids:
            f = F[fid]
            if f.kind == "derived" and f.complex:
                deps = _basic_deps(f)
                if any(x in deps for x in c.fids if x != fid):
                    # ordinary (congruency-style) designs cross a transition factor with its source;
                    # documented only for the warning case -> keep as a gap only when MinimumTrials leaves a partial chunk
                    pass
    for c in model.crossings:
        if model.T is not None and c.size and (model.T - c.start) % c.chunk != 0:
            model.gaps.append("partial-chunk") if False else None
    # POST_PREAMBLE with an uncrossed complex derived factor (5.3 f)
    for b in dast.iter_blocks(blk):
        if b.get("alignment") == "post preamble":
            crossed = set(x for c in dast.block_crossings(b) for x in c)
            for fid in dast.block_design_ids(b):
                if fid in F and F[fid].kind == "derived" and F[fid].complex and fid not in crossed:
                    model.gaps.append("post-preamble-uncrossed-complex")
    model.gaps = sorted(set(model.gaps))


def _basic_deps(f):
    out = set()
    for a in f.args:
        if a.kind == "basic":
            out.add(a.id)
        else:
            out.add(a.id)
            out |= _basic_deps(a)
    return out


# ---------------------------------------------------------------------------
# windows


def con_windows(model, con):
    T = model.T
    if con.windows is None:
        return [(0, T)]
    _, p, s = con.windows
    out = []
    r = 0
    if s <= 0:
        return [(0, T)]
    while r * s < T - p:
        out.append((r * s, min(T, r * s + p + s)))
        r += 1
    return out


# ---------------------------------------------------------------------------
# validity of one sequence


def _runs(vals, level, a, b):
    runs = []
    n = 0
    for t in range(a, b):
        if vals[t] == level:
            n += 1
        else:
            if n:
                runs.append(n)
            n = 0
    if n:
        runs.append(n)
    return runs


def check_con(model, con, seq):
    """Return None if satisfied, else a short description."""
    F = model.factors
    k = con.kind
    if k == "exclude":
        if con.level in seq[con.fid]:
            return "Exclude(%s:%s) occurs" % (F[con.fid].name, con.level)
        return None
    if k == "sequential":
        f = F[con.fid]
        p = max([c.start for c in model.crossings if con.fid in c.fids] + [0])
        for j, t in enumerate(range(p, model.T)):
            if seq[con.fid][t] != f.levels[j % len(f.levels)]:
                return "Sequential(%s) broken at trial %d" % (f.name, t)
        return None
    if k == "latinsquare":
        return None
    vals = seq[con.fid]
    for (a, b) in con_windows(model, con):
        if k == "pin":
            j = a + con.index if con.index >= 0 else b + con.index
            if not (a <= j < b):
                return "Pin(%d) out of range in window [%d,%d)" % (con.index, a, b)
            if vals[j] != con.level:
                return "Pin(%d,%s:%s) not met at trial %d" % (con.index, F[con.fid].name, con.level, j)
        elif k == "exactlyk":
            n = sum(1 for t in range(a, b) if vals[t] == con.level)
            if n != con.k:
                return "ExactlyK(%d,%s:%s) count=%d in [%d,%d)" % (con.k, F[con.fid].name, con.level, n, a, b)
        else:
            for r in _runs(vals, con.level, a, b):
                if k == "atmost" and r > con.k:
                    return "AtMostKInARow(%d,%s:%s) run=%d in [%d,%d)" % (con.k, F[con.fid].name, con.level, r, a, b)
                if k == "atleast" and r < con.k:
                    return "AtLeastKInARow(%d,%s:%s) run=%d in [%d,%d)" % (con.k, F[con.fid].name, con.level, r, a, b)
                if k == "exactlyrow" and r != con.k:
                    return "ExactlyKInARow(%d,%s:%s) run=%d in [%d,%d)" % (con.k, F[con.fid].name, con.level, r, a, b)
    return None


def valid(model, seq, check_derived=True):
    """seq: {fid: [value per trial]} for every discrete design factor.  Returns violated clauses."""
    F = model.factors
    T = model.T
    bad = []
    for fid in model.design:
        if fid not in seq:
            bad.append("missing factor %s" % F[fid].name)
            continue
        if len(seq[fid]) != T:
            bad.append("trial-count %s: %d != %d" % (F[fid].name, len(seq[fid]), T))
    if bad:
        return bad
    for fid in model.design:
        f = F[fid]
        for t in range(T):
            v = seq[fid][t]
            if f.kind == "basic":
                if v not in f.levels:
                    bad.append("level %s:%r not a level (trial %d)" % (f.name, v, t))
            else:
                if not applies(f, t):
                    if v != "":
                        bad.append("derived %s has value %r at non-applicable trial %d" % (f.name, v, t))
                elif check_derived:
                    if any(a.id not in seq for a in f.args):
                        continue
                    key = window_key(seq, f, t)
                    m = matching_levels(f, key)
                    if len(m) != 1 or m[0] != v:
                        bad.append("derived %s=%r at trial %d but window %r selects %r" % (f.name, v, t, key, m))
    if bad:
        return bad
    for c in model.crossings:
        if c.size == 0:
            continue
        t = c.start
        while t < T:
            end = min(T, t + c.chunk)
            cnt = Counter(tuple(seq[fid][u] for fid in c.fids) for u in range(t, end))
            full = (end - t) == c.chunk
            for combo, n in cnt.items():
                if combo not in c.cweights:
                    bad.append("crossing %s: removed/unknown combination %r at [%d,%d)" % ([F[i].name for i in c.fids], combo, t, end))
                elif n > c.cweights[combo] * c.N:
                    bad.append("crossing %s: %r occurs %d > %d in [%d,%d)" % ([F[i].name for i in c.fids], combo, n, c.cweights[combo] * c.N, t, end))
            if full:
                for combo, w in c.cweights.items():
                    if cnt.get(combo, 0) != w * c.N:
                        bad.append("crossing %s: %r occurs %d != %d in full chunk [%d,%d)" % ([F[i].name for i in c.fids], combo, cnt.get(combo, 0), w * c.N, t, end))
                        break
            t = end
    for (fid, lv) in model.excluded:
        if fid in seq and lv in seq[fid]:
            bad.append("Exclude(%s:%s) occurs" % (F[fid].name, lv))
    for con in model.cons:
        if con.kind == "exclude":
            continue
        r = check_con(model, con, seq)
        if r:
            bad.append(r)
    return bad


# ---------------------------------------------------------------------------
# enumeration


def print_key(model, seq):
    return tuple(tuple(seq[fid]) for fid in model.design)


def key_to_named(model, key):
    return {model.factors[fid].name: list(vals) for fid, vals in zip(model.design, key)}


def named_to_seq(model, named):
    """Library output {factor name: [values]} -> {fid: [values]} over the model's design (missing names stay missing)."""
    out = {}
    for fid in model.design:
        n = model.factors[fid].name
        if n in named:
            out[fid] = list(named[n])
    return out


def multiplicity(model, seq):
    m = 1
    for fid in model.mult_factors:
        w = model.factors[fid].weights
        for v in seq[fid]:
            m *= w[v]
    return m


def enumerate_valid(model, cap=20000, node_cap=2_000_000):
    """Depth-first search over trials with pruning on crossing counts and prefix-checkable constraints.
    Every emitted sequence is re-checked by the prune-free valid().  Returns Counter(print_key -> multiplicity)."""
    if model.status in ("rejected",):
        raise ValueError("design rejected")
    out = Counter()
    if model.status in ("erroneous", "empty"):
        return out
    F = model.factors
    T = model.T
    basics = [fid for fid in model.design if F[fid].kind == "basic"]
    deriveds = sorted([fid for fid in model.design if F[fid].kind == "derived"], key=lambda i: F[i].depth)
    choices = [[l for l in F[fid].levels if (fid, l) not in model.excluded] for fid in basics]
    seq = {fid: [] for fid in model.design}
    # crossing counters
    ccount = [dict() for _ in model.crossings]
    pins = []
    for con in model.cons:
        if con.kind == "pin":
            for (a, b) in con_windows(model, con):
                j = a + con.index if con.index >= 0 else b + con.index
                if not (a <= j < b):
                    return out     # out-of-range pin: no valid sequence
                pins.append((j, con.fid, con.level))
    pin_at = {}
    for j, fid, lv in pins:
        pin_at.setdefault(j, []).append((fid, lv))
    seqcons = [c for c in model.cons if c.kind == "sequential"]
    atmost = [c for c in model.cons if c.kind == "atmost" and c.windows is None]
    nodes = [0]

    def rec(t):
        nodes[0] += 1
        if nodes[0] > node_cap:
            raise TooBig("node cap")
        if t == T:
            if not valid(model, seq):
                k = print_key(model, seq)
                out[k] += multiplicity(model, seq)
                if len(out) > cap:
                    raise TooBig("solution cap")
            return
        for combo in itertools.product(*choices):
            for fid, v in zip(basics, combo):
                seq[fid].append(v)
            ok = True
            for did in deriveds:
                d = F[did]
                if not applies(d, t):
                    seq[did].append("")
                    continue
                if any(a.id not in seq for a in d.args):
                    ok = False
                    seq[did].append(None)
                    continue
                m = matching_levels(d, window_key(seq, d, t))
                if len(m) != 1 or (did, m[0]) in model.excluded:
                    ok = False
                    seq[did].append(None)
                else:
                    seq[did].append(m[0])
            undo = []
            if ok:
                for (fid, lv) in pin_at.get(t, ()):
                    if seq[fid][t] != lv:
                        ok = False
                        break
            if ok:
                for c in seqcons:
                    f = F[c.fid]
                    p = max([cx.start for cx in model.crossings if c.fid in cx.fids] + [0])
                    if t >= p and seq[c.fid][t] != f.levels[(t - p) % len(f.levels)]:
                        ok = False
                        break
            if ok:
                for c in atmost:
                    vals = seq[c.fid]
                    if vals[t] == c.level:
                        n = 0
                        u = t
                        while u >= 0 and vals[u] == c.level:
                            n += 1
                            u -= 1
                        if n > c.k:
                            ok = False
                            break
            if ok:
                for ci, c in enumerate(model.crossings):
                    if t < c.start or c.size == 0:
                        continue
                    chunk = (t - c.start) // c.chunk
                    cmb = tuple(seq[fid][t] for fid in c.fids)
                    if cmb not in c.cweights:
                        ok = False
                        break
                    key = (chunk, cmb)
                    n = ccount[ci].get(key, 0) + 1
                    if n > c.cweights[cmb] * c.N:
                        ok = False
                        break
                    ccount[ci][key] = n
                    undo.append((ci, key))
            if ok:
                rec(t + 1)
            for ci, key in undo:
                ccount[ci][key] -= 1
            for fid in model.design:
                seq[fid].pop()

    rec(0)
    return out


def estimate_space(model):
    """Cheap upper bound on the number of DFS leaves, to skip designs that are too big before enumerating."""
    F = model.factors
    if model.T is None:
        return 0
    per_trial = 1
    for fid in model.design:
        if F[fid].kind == "basic":
            per_trial *= len(F[fid].levels)
    return per_trial ** model.T
