"""Generator of block-combinator designs: MultiCrossBlock, Repeat, Merge, Nest (DESIGN.md 4.2)."""
from . import dast, gen

MODES = ["equal", "weight", "repeat"]
ALIGNS = ["equal preamble", "parallel start", "post preamble"]


def _basic(i, n, weights=None):
    name = gen.FACTOR_NAMES[i]
    return {"id": "f%d" % i, "kind": "basic", "name": name,
            "levels": [["%s%d" % (name.lower(), j), (weights[j] if weights else 1)] for j in range(n)]}


def _small_cfg(rng, cfg):
    c = dict(cfg)
    c["bad_tables"] = False
    c["nested_derived"] = False
    c["win_window"] = cfg.get("win_window", False) and rng.random() < 0.3
    return c


def _constraint(rng, cfg, factors, design_ids, approxT, cid, kinds):
    for _ in range(4):
        c = gen._gen_constraint(rng, cfg, factors, design_ids, [], approxT, 0, kinds)
        if c is not None:
            c["id"] = cid
            return c
    return None


def gen_parts(rng, cfg, tier, n_basic=None, derived=True, six=False):
    """Factors for a combinator design: 2-3 small basic factors and maybe one derived factor.
    `six`: the first two basic factors have 2 and 3 unweighted levels (a crossing of six equally weighted combinations)."""
    nb = n_basic or rng.choice([2, 2, 3])
    factors = []
    for i in range(nb):
        n = rng.choice([2, 2, 3])
        w = None
        if cfg.get("weights") and rng.random() < 0.25:
            w = [rng.choice([1, 2]) for _ in range(n)]
        if six and i < 2:
            n, w = (2, 3)[i], None
        factors.append(_basic(i, n, w))
    if derived and cfg.get("focus") == "parallel-start":
        c = dict(_small_cfg(rng, cfg), win_within=False, win_transition=True, win_window=rng.random() < 0.3)
        d = gen._gen_derived(rng, c, factors, 0)
        if d is not None and d["window"]["stride"] == 1:
            factors.append(d)
    elif derived and cfg.get("derived", 0) and rng.random() < 0.5:
        d = gen._gen_derived(rng, _small_cfg(rng, cfg), factors, 0)
        if d is not None:
            factors.append(d)
    return factors


def _cross(design, crossing, constraints, rcc=True):
    return {"kind": "cross", "design": list(design), "crossing": list(crossing), "constraints": constraints, "rcc": rcc}


SCOPED_KINDS = ["atmost", "atleast", "exactlyrow", "exactlyk", "pin"]


def gen_combinator_design(rng, cfg, tier, shape=None):
    shape = shape or rng.choice(["multicross", "repeat", "repeat", "merge", "nest"])
    long_rep = shape == "repeat" and rng.random() < 0.12     # a repetition long enough for runs of three and more (5-6 trials)
    factors = gen_parts(rng, cfg, tier, six=long_rep and rng.random() < 0.6)
    ids = [f["id"] for f in factors]
    basics = [f["id"] for f in factors if f["kind"] == "basic"]
    derived = [f["id"] for f in factors if f["kind"] == "derived" and f["window"]["stride"] == 1]
    fb = {f["id"]: f for f in factors}
    nc = [0]

    def cons(n, kinds, approxT):
        out = []
        for _ in range(n):
            nc[0] += 1
            c = _constraint(rng, cfg, factors, ids, approxT, "c%d" % nc[0], kinds)
            if c is not None:
                out.append(c)
        sib = gen.sibling_constraint(rng, out, kinds)
        if sib is not None:
            out.append(sib)
        return out

    def size_of(cr):
        s = 1
        for fid in cr:
            s *= sum(gen._weights(fb[fid]))
        return s
    if shape == "multicross":
        k = rng.choice([2, 2, 3]) if len(basics) >= 3 else 2
        crossings = []
        pool = basics + (derived if cfg.get("cross_derived") else [])
        for _ in range(k):
            c = rng.sample(pool, rng.randint(1, min(2, len(pool))))
            if size_of(c) <= cfg.get("max_cross", 6) and c not in crossings:
                crossings.append(c)
        if len(crossings) < 2:
            crossings = [[basics[0]], [basics[1]]]
        sub = len(basics) >= 2 and size_of(basics[:2]) <= cfg.get("max_cross", 6) + 2 and rng.random() < 0.2
        if sub:
            # a crossing that is a strict part of another one: implied by it in the weight and equal modes, a requirement of
            # its own (balance within every stretch of its own length) in repeat mode
            crossings = [basics[:2], [rng.choice(basics[:2])]]
            if rng.random() < 0.3:
                crossings.reverse()
        T = max(size_of(c) for c in crossings)
        mode = rng.choice(MODES) if not sub else rng.choice(["repeat", "repeat", "weight", "equal"])
        sizes = set(size_of(c) for c in crossings)
        if mode == "equal" and len(sizes) > 1 and rng.random() < 0.8:
            mode = rng.choice(["weight", "repeat"])
        align = rng.choice(ALIGNS)
        if cfg.get("focus") == "parallel-start":
            # crossings with different preamble lengths, any order, under every alignment that accepts them
            cplx = [d for d in derived if fb[d]["window"]["kind"] != "within"]
            if cplx:
                with_pre = [cplx[0]] + ([rng.choice(basics)] if rng.random() < 0.4 else [])
                without = [c for c in crossings if not any(x in cplx for x in c)] or [[basics[0]]]
                crossings = [with_pre] + without[:2] if rng.random() < 0.6 else without[:2] + [with_pre]
                crossings = [c for i, c in enumerate(crossings) if c not in crossings[:i] and size_of(c) <= cfg.get("max_cross", 6) + 2]
                T = max(size_of(c) for c in crossings)
            align = rng.choice(["parallel start", "parallel start", "post preamble"])
        blk = {"kind": "multicross", "design": ids, "crossings": crossings,
               "constraints": cons(rng.choice([0, 0, 1, 2]), [k for k in cfg["kinds"] if k not in ("latinsquare",)] or ["atmost"], T),
               "rcc": True, "mode": mode, "alignment": align}
        if rng.random() < 0.25:
            blk["constraints"].append({"id": "m0", "kind": "mintrials", "n": rng.randint(1, min(cfg["max_T"], 2 * T + 1))})
        return {"factors": factors, "block": blk}
    if shape == "repeat":
        pool = basics + (derived if cfg.get("cross_derived") and rng.random() < 0.5 else [])
        crossing = rng.sample(pool, rng.randint(1, min(2, len(pool))))
        if long_rep and size_of(basics[:2]) == 6 and rng.random() < 0.8:
            crossing = basics[:2]
        while size_of(crossing) > (6 if long_rep else 4) and len(crossing) > 1:
            crossing.pop()
        s = size_of(crossing)
        inner_cons = cons(rng.choice([0, 1, 1, 2]), SCOPED_KINDS, s)
        if long_rep and s >= 5:
            tf = rng.choice(basics)
            inner_cons.append({"id": "clr", "kind": rng.choice(["atleast", "atleast", "exactlyrow"]), "k": 3,
                               "target": [tf, rng.choice(fb[tf]["levels"])[0]], "spelling": "tuple"})
        if rng.random() < 0.15:
            inner_cons.append({"id": "mi", "kind": "mintrials", "n": rng.randint(1, 2 * s)})
        inner = _cross(ids, crossing, inner_cons)
        reps = rng.choice([1, 2, 2, 3])
        n = s * reps
        pre = 1 if any(fb[c]["kind"] == "derived" and fb[c]["window"]["width"] > 1 for c in crossing) else 0
        if rng.random() < (0.7 if long_rep else 0.15):
            n += rng.choice([1, -1] if not long_rep else [-1, -1, -1, 1])          # non-multiple
        # (a long repetition may end in a partial round of five trials and more: 11 or 17 trials of a 6-combination crossing)
        n = max(1, min(n + pre, cfg["max_T"] + 2 if not (long_rep and s >= 5) else 3 * s + 1))
        outer_cons = [{"id": "mo", "kind": "mintrials", "n": n}] if rng.random() < 0.9 else []
        outer_cons += cons(rng.choice([0, 0, 1]), SCOPED_KINDS, n)
        return {"factors": factors, "block": {"kind": "repeat", "block": inner, "constraints": outer_cons}}
    if shape == "merge":
        a, b = basics[0], basics[1]
        ca = [a] if rng.random() < 0.7 or len(basics) < 3 else [a, basics[2]]
        cb = [b]
        if derived and rng.random() < 0.3 and cfg.get("cross_derived"):
            cb = [derived[0]]
        malign = None
        if cfg.get("focus") == "parallel-start":
            cplx = [d for d in derived if fb[d]["window"]["kind"] != "within"]
            if cplx:
                if rng.random() < 0.6:
                    ca = [cplx[0]]
                else:
                    cb = [cplx[0]]
            malign = rng.choice(["parallel start", "parallel start", "post preamble", None])
        b1 = _cross(ids, ca, cons(rng.choice([0, 1]), SCOPED_KINDS, size_of(ca)))
        b2 = _cross(ids, cb, cons(rng.choice([0, 1]), SCOPED_KINDS, size_of(cb)))
        mode = rng.choice(["repeat", "repeat", "weight", "equal"])
        if mode == "equal" and size_of(ca) != size_of(cb):
            mode = "repeat"
        top = cons(rng.choice([0, 0, 1]), SCOPED_KINDS, max(size_of(ca), size_of(cb)))
        if rng.random() < 0.2:
            top.append({"id": "mm", "kind": "mintrials", "n": rng.randint(1, min(cfg["max_T"], 2 * max(size_of(ca), size_of(cb))))})
        return {"factors": factors, "block": {"kind": "merge", "blocks": [b1, b2] if rng.random() < 0.8 else [b1],
                                              "constraints": top, "mode": mode, "alignment": malign}}
    # nest: outer and inner crossings over disjoint basic factors, no preambles
    o, i = basics[0], basics[1]
    extra = basics[2:] if len(basics) > 2 else []
    if cfg.get("nest_small"):
        # keep |V(outer)| x |V(inner)|^T(outer) within reach of an exhaustive comparison
        if len(fb[o]["levels"]) >= 3 and len(fb[i]["levels"]) >= 3:
            victim = fb[rng.choice([o, i])]
            victim["levels"] = victim["levels"][:2]
        if extra and rng.random() < 0.7:
            extra = []
    outer = _cross([o] + ([extra[0]] if extra and rng.random() < 0.5 else []), [o], [])
    inner_design = [i] + [x for x in extra if x not in outer["design"]]
    inner = _cross(inner_design, [i], cons(rng.choice([0, 1, 1]), SCOPED_KINDS, size_of([i])))
    inner["constraints"] = [c for c in inner["constraints"] if c.get("target", [None])[0] in inner_design]
    # operand blocks longer than one crossing round: whole multiples and non-multiples of the crossing size
    si, so = size_of([i]), size_of([o])
    if rng.random() < 0.35:
        inner["constraints"].append({"id": "mti", "kind": "mintrials", "n": rng.choice([si + 1, 2 * si, 2 * si, 2 * si + 1, 3 * si])})
    if rng.random() < 0.15:
        outer["constraints"].append({"id": "mto", "kind": "mintrials", "n": rng.choice([so + 1, 2 * so])})
    top = cons(rng.choice([0, 0, 1]), SCOPED_KINDS, size_of([o]) * size_of([i]))
    used = set(outer["design"]) | set(inner["design"])
    top = [c for c in top if c.get("target", [None])[0] in used]
    facs = [f for f in factors if f["id"] in used]
    return {"factors": facs, "block": {"kind": "nest", "outer": outer, "inner": inner, "constraints": top, "alignment": None}}
