"""C01 - formula-based samplers return only valid trial sequences (DESIGN.md section 6, C01)."""
import json

from .. import common, dast, gen, refsem, world as W

PROP = "C01"
LEVEL = "exploration"
RULE = ("seeded designs (sim.gen swarm) x peer policy x transport x strategy; each returned sequence checked against the "
        "reference semantics V_max; non-trivial = constructor accepted, no documentation gap, >=1 peer invocation and >=1 "
        "sequence returned; distinct = (design skeleton, strategy set, peer policy, transport)")
ASSUMPTIONS = ["reference semantics (sim/refsem.py) reads the documentation correctly; calibrated against acceptance counts",
               "fake peers return only genuine models of the clauses they receive (SAT search is real pycryptosat)"]
BUDGET = {"quick": 300, "thorough": 900}
RUNS = {"quick": 3000, "thorough": 400000}
FORMULA = ["IterateSATGen", "CMSGen", "UniGen", "IterateGen", "UniformGen"]


def gen_case(rs, tier):
    rng = W.stream(rs, "design")
    krng = W.stream(rs, "knobs")
    cfg = gen.swarm(krng, tier)
    ast = gen.gen_design(rng, cfg, tier)
    if ast is None:
        return None
    knobs = common.draw_knobs(krng)
    strategies = krng.sample(FORMULA, 2)
    if "IterateSATGen" not in strategies and krng.random() < 0.5:
        strategies[0] = "IterateSATGen"
    faults = []
    if krng.random() < 0.25:
        faults = gen_faults(W.stream(rs, "faults"))
    case = {"design": ast, "knobs": knobs, "strategies": strategies, "n": krng.choice([1, 2, 2, 5]), "faults": faults}
    case["tier"] = tier
    case["sweep"] = W.stream(rs, "sweep").random() < (0.15 if tier == "thorough" else 0.04)
    if case["sweep"]:
        case["timeout"] = 150        # one workload, run once per fault placement
    return case


def gen_faults(frng):
    kinds = ["fs.enospc", "fs.eio", "fs.eacces", "fs.vanish", "peer.raise", "peer.unknown", "peer.memory", "stdout.epipe"]
    out = []
    for _ in range(frng.choice([1, 1, 2])):
        k = frng.choice(kinds)
        if k == "stdout.epipe":
            out.append({"kind": k, "at": frng.randint(0, 400)})
        elif k.startswith("fs."):
            out.append({"kind": k, "at": frng.randint(0, 8), "arg": frng.choice([0.0, 0.3, 0.9])})
        else:
            out.append({"kind": k, "at": frng.randint(0, 40)})
    return out


def check_sequences(m, res, strat):
    """Returns (signature_tail, detail) for the first invalid sequence, or None."""
    for si, e in enumerate(res):
        hidden = [k for k in e if not isinstance(k, str)]
        if hidden:
            return "hidden-factor-exposed", "sequence %d exposes internal factor key(s) %r" % (si, hidden)
        seq = refsem.named_to_seq(m, e)
        bad = refsem.valid(m, seq)
        if m.status in ("erroneous", "empty") and not bad:
            bad = ["design has no valid sequence (%s) but one was returned" % m.reason]
        if bad:
            return "invalid/%s" % common.invalid_tail(m, bad), "strategy %s sequence %d: %s ; sequence=%s" % (strat, si, bad[:3], json.dumps(e, default=str)[:600])
    return None


def run_one(case):
    ast = case["design"]
    m = refsem.elaborate(ast)
    if m.status == "rejected":
        return {"outcome": "skip", "reason": "ref-rejected"}
    if m.gaps:
        return {"outcome": "skip", "reason": "doc-gap:" + m.gaps[0]}
    faulty = bool(case.get("faults"))
    with W.SimWorld(case["run_seed"], case["knobs"], case.get("faults")) as w:
        w.peer_calls_cap = 200
        blk, b, exc = common.construct(w, ast)
        if exc is not None:
            return common.result_base(w, outcome="skip", reason="constructor-refused:" + type(exc).__name__)
        t_differs = m.status == "ok" and blk.trials_per_sample() != m.T
        returned = 0
        viol = None
        for strat in case["strategies"]:
            res, exc = common.synth(w, blk, strat, case["n"])
            if exc is not None:
                continue        # exceptions are C08's business (or injected faults)
            returned += len(res)
            if t_differs:
                # the block reports another trial count than the documented arithmetic gives (C16's business as long as
                # nothing is returned); a sequence of that length is not valid for the design as documented
                v = ("invalid/trial-count", "strategy %s returned %d sequence(s) of a block that reports %d trials, documented count %d" % (
                    strat, len(res), blk.trials_per_sample(), m.T)) if res else None
            else:
                v = check_sequences(m, res, strat)
            if v and viol is None:
                viol = (strat, v)
        key = (dast.skeleton(ast), tuple(case["strategies"]), case["knobs"]["peer"], case["knobs"]["transport"], faulty)
        base = common.result_base(w, key=str(key), nontrivial=bool(returned and w.counters.get("peer.solve", 0)),
                                  summary={"design": dast.describe(ast), "T": m.T, "returned": returned,
                                           "strategies": case["strategies"], "peer": case["knobs"]["peer"],
                                           "transport": case["knobs"]["transport"], "faults": case.get("faults")})
        if t_differs and not viol:
            base.update(outcome="skip", reason="trial-count-differs(C16)")
            return base
        if viol:
            strat, (tail, detail) = viol
            cls = "sat" if strat in ("IterateSATGen", "IterateGen") else "sampler"
            sig = "C01/%s" % tail
            base.update(outcome="violation", signature=sig, detail=detail + " ; design=" + dast.describe(ast))
            base["class"] = cls
            return base
        base["outcome"] = "ok"
        return base


SWEEP_KINDS = ['fs.enospc', 'fs.eio', 'fs.eacces', 'fs.vanish', 'peer.raise', 'peer.unknown', 'peer.memory', 'stdout.epipe']


def run_case(case):
    """A sweep case runs the workload fault-free and then once per (operation index x fault kind) placement."""
    if case.get("sweep"):
        return common.fault_sweep(run_one, case, SWEEP_KINDS, cap=160 if case.get("tier") == "thorough" else 60)
    return run_one(case)


def shrink_candidates(case):
    for c in common.shrink_case(case):
        if len(c.get("strategies", [])) > 1:
            pass
        yield c
    if len(case["strategies"]) > 1:
        for s in case["strategies"]:
            c = dict(case)
            c["strategies"] = [s]
            yield c
    if case["n"] > 1:
        c = dict(case)
        c["n"] = 1
        yield c
