"""C18 - reusing factor and constraint objects across blocks does not change meaning (DESIGN.md C18).
A history of constructor calls over one pool of shared Python objects, compared with fresh twins."""
import json
from collections import Counter

from .. import build, common, dast, gen, world as W

PROP = "C18"
LEVEL = "exploration"
RULE = ("seeded histories: a pool of 2-4 factor objects and 1-3 constraint objects; 2-5 block expressions (CrossBlock of "
        "different geometry, Repeat, Merge, Nest over sub-selections of the pool) built in a seeded order from the SAME Python "
        "objects, interleaved with exhaust / mismatch queries; reference = the same block expression built alone from fresh "
        "objects; oracle: exhausted IterateSATGen multisets equal and sample_mismatch_experiment verdicts equal (on the twin's "
        "sequences and on perturbed ones); non-trivial = >=2 blocks share >=1 constraint object and >=1 query compared >=2 "
        "sequences; distinct = (block kinds, shared constraint kinds, order)")
ASSUMPTIONS = ["fake peers return only genuine models of the clauses they receive"]
BUDGET = {"quick": 300, "thorough": 900}
RUNS = {"quick": 400, "thorough": 60000}
THOROUGH_RUNS = 1000        # the thorough tier of this (expensive) check: a fixed range sized to stay within ~15 minutes
CKINDS = ["atmost", "atleast", "exactlyrow", "exactlyk", "pin", "exclude"]


def gen_case(rs, tier):
    rng = W.stream(rs, "design")
    krng = W.stream(rs, "knobs")
    hrng = W.stream(rs, "history")
    nf = rng.randint(2, 3)
    factors = []
    for i in range(nf):
        n = rng.randint(2, 3)
        factors.append({"id": "f%d" % i, "kind": "basic", "name": gen.FACTOR_NAMES[i],
                        "levels": [["%s%d" % (gen.FACTOR_NAMES[i].lower(), j), 1] for j in range(n)]})
    if rng.random() < 0.35:
        # weighted levels: the same factor object is crossed in one block and left out of the crossing (where its weights
        # are desugared into hidden factors) in another
        for f in rng.sample(factors, rng.randint(1, len(factors))):
            rng.choice(f["levels"])[1] = 2
    if rng.random() < 0.4:
        cfg = gen.swarm(krng, tier)
        cfg["win_window"] = False
        cfg["bad_tables"] = False
        cfg["nested_derived"] = False
        d = gen._gen_derived(rng, cfg, factors, 0)
        if d is not None:
            factors.append(d)
    tr_id = None
    if W.stream(rs, "uncrossed-transition").random() < 0.3:
        # a Transition factor over the first basic factor that no block crosses: under POST_PREAMBLE alignment such a factor
        # decides a single-crossing block's preamble, so the block's alignment attribute matters
        names = [n_ for n_, _ in factors[0]["levels"]]
        tr_id = "dT"
        factors.append({"id": tr_id, "kind": "derived", "name": "TR", "window": {"kind": "transition", "width": 2, "stride": 1, "start": 1},
                        "args": [factors[0]["id"]],
                        "levels": [{"name": "same", "weight": 1, "table": [[[a, a]] for a in names]},
                                   {"name": "diff", "weight": 1, "table": [[[a, b_]] for a in names for b_ in names if a != b_]}]})
    basic_ids = [f["id"] for f in factors if f["kind"] == "basic"]
    cons = []
    for ci in range(rng.randint(1, 3)):
        kind = rng.choice(CKINDS)
        fid = rng.choice(basic_ids)
        f = [x for x in factors if x["id"] == fid][0]
        c = {"id": "c%d" % ci, "kind": kind, "target": [fid, rng.choice(f["levels"])[0]], "spelling": "tuple"}
        if kind == "pin":
            c["index"] = rng.choice([0, 1, -1, 2, -2])
        elif kind != "exclude":
            c["k"] = rng.randint(1, 3)
        cons.append(c)
    shared_cons = [c for c in cons if c["kind"] != "exclude"]
    all_ids = [f["id"] for f in factors]
    blocks = []
    # operand blocks that several combinators may share AS OBJECTS (a "bid" maps to one Python block per pool): an outer and
    # an inner CrossBlock for Nest, also usable under Repeat and Merge
    aux = {}
    if len(basic_ids) >= 2:
        o, i = basic_ids[0], basic_ids[1]
        for tag, fid in (("O", o), ("I", i)):
            cs_x = [dast.clone(c) for c in cons if c["target"][0] == fid and hrng.random() < 0.5 and c["kind"] != "exclude"]
            if hrng.random() < 0.5:
                cs_x.append({"id": "mt" + tag, "kind": "mintrials", "n": hrng.choice([3, 4, 6])})
            aux[tag] = {"kind": "cross", "bid": tag, "design": [fid] + ([tr_id] if tr_id and tag == "O" else []), "crossing": [fid], "constraints": cs_x, "rcc": True}
        # a second inner block of another length: the same outer block nested around inner runs of different lengths
        aux["I2"] = {"kind": "cross", "bid": "I2", "design": [i], "crossing": [i],
                     "constraints": [{"id": "mtI2", "kind": "mintrials", "n": len(factors[1]["levels"]) + hrng.choice([1, 2, 3])}], "rcc": True}
    for bi in range(hrng.randint(2, 5)):
        crossing = hrng.sample(basic_ids, hrng.randint(1, len(basic_ids)))
        if len(factors) > nf and hrng.random() < 0.3:
            crossing = [c for c in crossing][:1] + [factors[-1]["id"]]
        design = list(all_ids)
        cs = [c for c in cons if hrng.random() < 0.6]
        rcc = not any(c["kind"] == "exclude" for c in cs)
        b = {"kind": "cross", "bid": "B%d" % bi, "design": design, "crossing": crossing, "constraints": [dast.clone(c) for c in cs], "rcc": rcc}
        earlier = [x for x in blocks if x["kind"] == "cross"]
        shape = hrng.random()
        if shape < 0.22:
            size = 1
            r = hrng.random()
            inner_b = b if r < 0.4 or not (earlier or aux) else (dast.clone(hrng.choice(earlier)) if earlier and r < 0.65 else dast.clone(aux[hrng.choice(sorted(aux))]) if aux else b)
            b = {"kind": "repeat", "block": inner_b, "constraints": [{"id": "m%d" % bi, "kind": "mintrials", "n": hrng.choice([4, 6])}] +
                 ([dast.clone(hrng.choice(shared_cons))] if shared_cons and hrng.random() < 0.4 else [])}
        elif shape < 0.50 and len(basic_ids) >= 2:
            b = {"kind": "nest", "outer": dast.clone(aux["O"]), "inner": dast.clone(aux[hrng.choice(["I", "I", "I2"])]), "constraints": [], "alignment": None}
        elif shape < 0.62 and len(basic_ids) >= 2:
            # Merge of two CrossBlocks over the same design; the shared constraint objects sit in either operand or on the Merge
            other = [x for x in basic_ids if x not in crossing[:1]] or basic_ids
            if aux and hrng.random() < 0.35:
                # operands over different designs (the merged block has more factors per trial than either operand),
                # both of them shared block objects
                b = dast.clone(aux["O"])
                b2 = dast.clone(aux[hrng.choice(["I", "I2"])])
            else:
                b2 = dast.clone(hrng.choice(earlier)) if earlier and hrng.random() < 0.3 else {"kind": "cross", "bid": "B%db" % bi, "design": design, "crossing": [hrng.choice(other)],
                      "constraints": [dast.clone(c) for c in shared_cons if hrng.random() < 0.4], "rcc": True}
            b["constraints"] = [c for c in b["constraints"] if c["kind"] != "exclude"]
            b["rcc"] = True
            if any(c["kind"] == "exclude" for c in b2["constraints"]):
                b2 = dast.clone(b2)
                b2.pop("bid", None)
                b2["constraints"] = [c for c in b2["constraints"] if c["kind"] != "exclude"]
                b2["rcc"] = True
            b = {"kind": "merge", "blocks": [b, b2], "constraints": [dast.clone(c) for c in shared_cons if hrng.random() < 0.3],
                 "mode": hrng.choice(["repeat", "weight"]), "alignment": W.stream(rs, "merge-align-%d" % bi).choice([None, None, "post preamble", "parallel start"])}
        elif shape < 0.70 and len(basic_ids) >= 2:
            cr2 = [hrng.choice(basic_ids)]
            b = {"kind": "multicross", "design": design, "crossings": [crossing, cr2] if cr2 != crossing else [crossing, [basic_ids[0]] if crossing != [basic_ids[0]] else [basic_ids[1]]],
                 "constraints": [c for c in b["constraints"] if c["kind"] != "exclude"], "rcc": True,
                 "mode": hrng.choice(["repeat", "weight"]), "alignment": hrng.choice(["post preamble", "parallel start"])}
        if b["kind"] == "cross" and aux and shape >= 0.70 and shape < 0.80:
            # an operand block on its own: it can be sampled before (or after) the combinators that share it are built
            b = dast.clone(aux[hrng.choice(sorted(aux))])
        blocks.append(b)
    order = list(range(len(blocks)))
    hrng.shuffle(order)
    story = None
    if aux and hrng.random() < 0.5:
        # a *story* about one operand block object: two or three uses of the same object, in the order drawn, the first one
        # usually sampled before the next is built.  Random block lists share an operand object in a few runs in a hundred;
        # a story does in every run, and that is where history-dependent damage shows.
        X = hrng.choice(["O", "O", "I", "I2"])
        inners = ["I", "I2"]

        def use(kind):
            if kind == "alone":
                return dast.clone(aux[X])
            if kind == "repeat":
                return {"kind": "repeat", "block": dast.clone(aux[X]),
                        "constraints": [{"id": "ms%d" % hrng.randrange(10 ** 6), "kind": "mintrials", "n": hrng.choice([4, 6])}] +
                        ([dast.clone(hrng.choice(shared_cons))] if shared_cons and hrng.random() < 0.3 else [])}
            if kind == "merge":
                other = aux[hrng.choice(inners)] if X == "O" else aux["O"]
                pair = [dast.clone(aux[X]), dast.clone(other)]
                if hrng.random() < 0.5:
                    pair.reverse()
                return {"kind": "merge", "blocks": pair, "constraints": [], "mode": hrng.choice(["repeat", "weight"]),
                        "alignment": W.stream(rs, "story-align-%d" % hrng.randrange(10 ** 6)).choice([None, "post preamble", "post preamble", "parallel start"]) if tr_id else None}
            inner = aux[X] if X != "O" else aux[hrng.choice(inners)]
            return {"kind": "nest", "outer": dast.clone(aux["O"]), "inner": dast.clone(inner), "constraints": [], "alignment": None}
        kinds_ = ["alone", "repeat", "merge", "nest", "nest"]
        if not any(c["kind"] in ("atmost", "atleast", "exactlyrow") for c in aux[X]["constraints"]) and hrng.random() < 0.7:
            # the operand carries a run-length constraint of its own (that is what block geometry gets recorded in)
            fidx = aux[X]["design"][0]
            fx = [f for f in factors if f["id"] == fidx][0]
            aux[X]["constraints"].append({"id": "cs" + X, "kind": hrng.choice(["atmost", "atleast", "exactlyrow"]), "k": hrng.choice([1, 1, 2]),
                                          "target": [fidx, hrng.choice(fx["levels"])[0]], "spelling": hrng.choice(["tuple", "level"])})
        first = hrng.choice(["alone", "alone"] + kinds_)
        blocks = [use(first)] + [use(hrng.choice(kinds_)) for _ in range(hrng.choice([1, 1, 2]))]
        order = list(range(len(blocks)))
        story = X
    if story is None and len(basic_ids) >= 2 and hrng.random() < 0.25:
        # a *role-change* story: the same (weighted) factor objects, crossed in one block and left out of the crossing in the
        # next - weights of an uncrossed factor are desugared into hidden factors, weights of a crossed one are not
        fa, fb_ = basic_ids[0], basic_ids[1]
        for fid in (fa, fb_):
            f = [x for x in factors if x["id"] == fid][0]
            if all(w_ == 1 for _, w_ in f["levels"]) and hrng.random() < 0.8:
                hrng.choice(f["levels"])[1] = 2
        small = [fa, fb_]
        seqs = [[fa], [fb_], [fa, fb_]]
        hrng.shuffle(seqs)
        blocks = [{"kind": "cross", "bid": "R%d" % i, "design": list(small), "crossing": cr,
                   "constraints": [dast.clone(c) for c in shared_cons if c["target"][0] in small and hrng.random() < 0.3], "rcc": True}
                  for i, cr in enumerate(seqs[:hrng.choice([2, 2, 3])])]
        order = list(range(len(blocks)))
        story = "roles"
    knobs = common.draw_knobs(krng, transports=("lib",))
    if knobs["peer"] in ("walk", "lexmin", "lexmax") and krng.random() < 0.8:
        knobs["peer"] = "native"      # which model comes first is immaterial here, and those policies cost |variables| solves per model
    # blocks that share an operand block object with another block are the interesting ones: query them first
    def shares(i):
        mine = set(x.get("bid") for x in dast.iter_blocks(blocks[i])) - {None}
        return any(mine & (set(x.get("bid") for x in dast.iter_blocks(blocks[j])) - {None}) for j in range(len(blocks)) if j != i)
    cand_q = [i for i in order if hrng.random() < 0.8] or order[:1]
    cand_q.sort(key=lambda i: 0 if shares(i) else 1)
    queries = cand_q[:3 if tier == "quick" else 5]
    # interleaving: some blocks are also queried right after they are built, i.e. before the later constructors run
    # (a synthesis between two constructor calls is part of the history too), and queried again at the end
    early = [i for i in queries if hrng.random() < 0.35]
    if story is not None:
        queries = list(order)
        early = [order[0]] if hrng.random() < 0.8 else []
        early += [i for i in order[1:] if hrng.random() < 0.2]
    faults = []
    if hrng.random() < 0.12:
        import math
        # the user interrupts one constructor call at an arbitrary line; the shared objects stay in the pool
        faults.append({"kind": "abort@line", "block": hrng.choice(order), "at": int(math.exp(hrng.uniform(0, math.log(30000))))})
    return {"factors": factors, "blocks": blocks, "order": order, "knobs": knobs, "tier": tier,
            "queries": queries, "early": early, "faults": faults, "story": story}


def key(e):
    return tuple(sorted((str(k), tuple(v)) for k, v in e.items()))


def exhaust(w, blk, cap):
    w.peer_calls_cap = w.counters.get("peer.solve", 0) + cap + 20
    res, exc = common.synth(w, blk, "IterateSATGen", cap + 1)
    return res, exc


def perturb(e, rng):
    e2 = {k: list(v) for k, v in e.items()}
    ks = sorted(e2)
    k = rng.choice(ks)
    n = len(e2[k])
    if n >= 2:
        i, j = rng.sample(range(n), 2)
        for kk in [k]:
            e2[kk][i], e2[kk][j] = e2[kk][j], e2[kk][i]
    return e2


def run_case(case):
    import sweetpea as sp
    from ..smworld import SimAbort
    tier = case.get("tier", "quick")
    cap = 90 if tier == "quick" else 1500
    pool_ast = {"factors": case["factors"], "block": None}
    aborts = {f["block"]: f["at"] for f in (case.get("faults") or []) if f["kind"] == "abort@line"}
    with W.SimWorld(case["run_seed"], case["knobs"]) as w:
        bld = build.Builder(pool_ast)
        built = {}
        aborted = set()
        log = []
        st = {"compared": 0}
        viols = []
        prng = w.stream("perturb")

        def compare(bi, stage):
            blk = built.get(bi)
            b = case["blocks"][bi]
            if bi in aborted:
                return
            # fresh twin: same expression, new objects, built alone
            try:
                fresh = build.Builder(pool_ast).block(b)
            except Exception as e:   # noqa
                if blk is not None:
                    viols.append(("C18/constructor-outcome-differs/shared-accepts", "block %d built from shared objects but refused from fresh ones (%s)" % (bi, type(e).__name__)))
                return
            if blk is None:
                viols.append(("C18/constructor-outcome-differs/fresh-accepts/" + b["kind"],
                              "block %d (%s) is refused when built from shared objects (%s) but accepted from fresh ones ; history=%s" % (bi, dast.describe({"factors": case["factors"], "block": b}), [l for l in log if l.startswith("build%d" % bi)], log)))
                return
            # the cheapest observable first: it needs no solver and cannot be lost to a size cap
            if blk.trials_per_sample() != fresh.trials_per_sample():
                viols.append(("C18/trial-count-differs/" + b["kind"], "block %d (%s): %d trials when built from shared objects after %s, %d from fresh objects" % (
                    bi, dast.describe({"factors": case["factors"], "block": b}), blk.trials_per_sample(), log, fresh.trials_per_sample())))
                return
            try:
                with common.time_limit(6):
                    rs_, e1 = exhaust(w, blk, cap)
                    rf_, e2 = exhaust(w, fresh, cap)
            except (common.InnerTimeout, W.HarnessCap):
                log.append("query%d@%s:cap" % (bi, stage))
                return
            log.append("query%d@%s" % (bi, stage))
            if e1 is not None or e2 is not None:
                if (e1 is None) != (e2 is None):
                    viols.append(("C18/synthesis-outcome-differs", "block %d: shared %r fresh %r" % (bi, type(e1).__name__ if e1 else None, type(e2).__name__ if e2 else None)))
                return
            if len(rs_) > cap and len(rf_) > cap:
                # too many to compare as sets.  Cross-check instead: if the fresh twin's checker accepts the fresh twin's own
                # solutions, it must accept the solutions of the block built from shared objects too (and the other way
                # round) - they are claimed to be solutions of the same block expression
                def accepts(checker_blk, seqs):
                    bad = None
                    for e in seqs:
                        try:
                            mm = sp.sample_mismatch_experiment(checker_blk, {k: list(v) for k, v in e.items()})
                        except Exception:   # noqa
                            return None, None
                        if mm:
                            bad = (e, mm)
                            break
                    return bad is None, bad
                st["compared"] += 1
                for who, own, other_blk_solutions, checker in (("fresh", rf_[:30], rs_[:30], fresh), ("shared", rs_[:30], rf_[:30], blk)):
                    ok_own, _ = accepts(checker, own)
                    if ok_own:
                        ok_other, bad = accepts(checker, other_blk_solutions)
                        if ok_other is False:
                            viols.append(("C18/solution-rejected-by-twin-checker/%s/%s" % (b["kind"], "shared-solution" if who == "fresh" else "fresh-solution"),
                                          "block %d (%s): the %s block's checker accepts its own solutions but reports %s for a solution of the %s block: %s ; after %s" % (
                                              bi, dast.describe({"factors": case["factors"], "block": b}), who, sorted(bad[1].keys()),
                                              "shared" if who == "fresh" else "fresh", json.dumps(bad[0])[:200], log)))
                            return
                return
            if len(rs_) > cap or len(rf_) > cap:
                viols.append(("C18/solution-count-differs/" + b["kind"],
                              "block %d (%s): more than %d solutions when built from %s objects, %d from %s objects, after %s" % (
                                  bi, dast.describe({"factors": case["factors"], "block": b}), cap, "shared" if len(rs_) > cap else "fresh",
                                  min(len(rs_), len(rf_)), "fresh" if len(rs_) > cap else "shared", log)))
                return
            S, F = Counter(key(e) for e in rs_), Counter(key(e) for e in rf_)
            st["compared"] += max(len(rs_), len(rf_)) >= 2
            if S != F:
                only_s = sorted(set(S) - set(F))
                only_f = sorted(set(F) - set(S))
                direction = "shared-accepts-more" if only_s and not only_f else ("shared-accepts-fewer" if only_f and not only_s else "both")
                viols.append(("C18/solution-sets-differ/%s/%s" % (b["kind"], direction),
                              "block %d (%s): %d solutions when built from shared objects after %s, %d from fresh objects; e.g. only-shared %s only-fresh %s" % (
                                  bi, dast.describe({"factors": case["factors"], "block": b}), sum(S.values()), log, sum(F.values()),
                                  json.dumps(dict(only_s[0]))[:200] if only_s else None, json.dumps(dict(only_f[0]))[:200] if only_f else None)))
                return
            # mismatch verdicts on the twin's sequences and on perturbed ones
            for e in rf_[:4]:
                for cand in (e, perturb(e, prng)):
                    try:
                        ms = sp.sample_mismatch_experiment(blk, {k: list(v) for k, v in cand.items()})
                        mf = sp.sample_mismatch_experiment(fresh, {k: list(v) for k, v in cand.items()})
                    except Exception:   # noqa
                        continue
                    if sorted(ms.keys()) != sorted(mf.keys()):
                        viols.append(("C18/mismatch-verdict-differs/" + b["kind"],
                                      "block %d: shared verdict %r, fresh verdict %r for %s" % (bi, sorted(ms.keys()), sorted(mf.keys()), json.dumps(cand)[:200])))
                        return

        for bi in case["order"]:
            b = case["blocks"][bi]
            try:
                with common.time_limit(5), common.LineAbort(w, aborts.get(bi)):
                    built[bi] = bld.block(b)
                log.append("build%d:%s" % (bi, b["kind"]))
            except common.InnerTimeout:
                return {"outcome": "skip", "reason": "timeout"}
            except SimAbort:
                # the half-built block is dropped; Builder caches of constraint/factor objects stay (they are the shared pool)
                built[bi] = None
                aborted.add(bi)
                log.append("build%d:aborted" % bi)
            except Exception as e:   # noqa
                built[bi] = None
                log.append("build%d:refused(%s)" % (bi, type(e).__name__))
            if bi in case.get("early", []):
                compare(bi, "early")
        for bi in case["queries"]:
            compare(bi, "end")
        compared = st["compared"]
        after_fault = bool(aborted)
        base = common.result_base(w, key=str((tuple(case["blocks"][i]["kind"] for i in case["order"]), tuple(sorted(set(c["kind"] for b in case["blocks"] for _, c in dast.iter_constraints(b)))), len(case.get("early", [])))),
                                  nontrivial=compared >= 1 and len([b for b in built.values() if b is not None]) >= 2,
                                  summary={"factors": [dast.describe({"factors": case["factors"], "block": {"kind": "cross", "design": [], "crossing": [], "constraints": []}})[:120]],
                                           "blocks": [dast.describe({"factors": case["factors"], "block": b})[-160:] for b in case["blocks"]],
                                           "history": log, "queries": case["queries"], "early": case.get("early"), "faults": case.get("faults")})
        viol = common.pick_violation(PROP, viols)
        if viol:
            base.update(outcome="violation", signature=viol[0], detail=viol[1])
            return base
        base["outcome"] = "ok"
        return base


def ids_consistent(blocks):
    seen = {}
    for top in blocks:
        for b in dast.iter_blocks(top):
            bid = b.get("bid")
            if bid is None:
                continue
            if bid in seen and seen[bid] != dast.canon(b):
                return False
            seen[bid] = dast.canon(b)
    for b in blocks:
        for _, c in dast.iter_constraints(b):
            cid = c.get("id")
            if cid is None:
                continue
            if cid in seen and seen[cid] != dast.canon(c):
                return False
            seen[cid] = dast.canon(c)
    return True


def shrink_candidates(case):
    for c in _shrink_candidates(case):
        if ids_consistent(c["blocks"]):       # one id = one shared Python object: its content must stay the same everywhere
            yield c


def _shrink_candidates(case):
    n = len(case["blocks"])
    for i in range(n):
        if n > 1:
            c = dict(case)
            c["blocks"] = case["blocks"][:i] + case["blocks"][i + 1:]
            remap = {old: new for new, old in enumerate([j for j in range(n) if j != i])}
            c["order"] = [remap[j] for j in case["order"] if j != i]
            c["queries"] = [remap[j] for j in case["queries"] if j != i]
            c["early"] = [remap[j] for j in case.get("early", []) if j != i]
            c["faults"] = [dict(f, block=remap[f["block"]]) for f in (case.get("faults") or []) if f.get("block") != i]
            if c["queries"]:
                yield c
    for bi, b in enumerate(case["blocks"]):
        for a in common.design_shrinks({"factors": case["factors"], "block": b}):
            if a["factors"] != case["factors"]:
                continue
            c = dict(case)
            c["blocks"] = list(case["blocks"])
            c["blocks"][bi] = a["block"]
            yield c
    if len(case["queries"]) > 1:
        for q in case["queries"]:
            c = dict(case)
            c["queries"] = [q]
            c["early"] = [x for x in case.get("early", []) if x == q]
            yield c
    if case.get("early"):
        c = dict(case)
        c["early"] = []
        yield c
    if case.get("faults"):
        c = dict(case)
        c["faults"] = []
        yield c
