"""C07 - SAT-based and combinatoric samplers agree on the solution space (DESIGN.md C07).  No reference semantics."""
import json

from .. import common, dast, refsem, rgworld, world as W
from . import c06

PROP = "C07"
LEVEL = "exploration"
RULE = ("seeded designs accepted by both strategies; IterateSATGen (random peer policy/transport) and RandomGen (scripted RNG) "
        "both exhausted in one world; oracle: set equality by level names, both refuse or neither; no reference semantics "
        "involved (documentation gaps stay in); non-trivial = >=2 sequences on either side; distinct = (design skeleton, peer)")
ASSUMPTIONS = ["fake peers return only genuine models of the clauses they receive"]
BUDGET = {"quick": 300, "thorough": 900}
RUNS = {"quick": 2500, "thorough": 100000}
THOROUGH_RUNS = 5000        # the thorough tier of this (expensive) check: a fixed range sized to stay within ~15 minutes


def gen_case(rs, tier):
    return c06.gen_case(rs, tier, "C07")


def names_key(e):
    return tuple(sorted((str(k), tuple(v)) for k, v in e.items()))


def run_case(case):
    early, ctx = c06.run_exhaust(case, need_ref=False)
    if early is not None:
        return early
    res_r, tr, ast, blk = ctx["res"], ctx["tr"], ctx["ast"], ctx["blk"]
    if len(res_r) > (400 if case.get("tier") != "thorough" else 3000):
        return {"outcome": "skip", "reason": "too-big"}
    with W.SimWorld(case["run_seed"] + "/sat", case["knobs"]) as w2:
        w2.peer_calls_cap = len(res_r) * 40 + 200
        blk2, b2, exc = common.construct(w2, ast)
        if exc is not None:
            return {"outcome": "skip", "reason": "constructor-refused"}
        try:
            with common.time_limit(15):
                res_s, exc = common.synth(w2, blk2, "IterateSATGen", max(3000, len(res_r) * 40))
        except (common.InnerTimeout, W.HarnessCap):
            return {"outcome": "skip", "reason": "sat-side-too-big"}
        if exc is not None:
            return {"outcome": "skip", "reason": "exception(C08):" + type(exc).__name__}
        d2 = w2.digest()
        c2 = dict(w2.counters)
    base = c06.base_of(ctx, case)
    base["digest"] = W._sha1(base["digest"] + d2)
    for k, v in c2.items():
        base["counters"][k] = base["counters"].get(k, 0) + v
    base["key"] = str((dast.skeleton(ast), case["knobs"]["peer"]))
    base["nontrivial"] = max(len(res_r), len(res_s)) >= 2
    S = set(names_key(e) for e in res_s)
    R = set(names_key(e) for e in res_r)
    base["summary"].update({"sat_distinct": len(S), "random_distinct": len(R), "peer": case["knobs"]["peer"]})
    if S != R:
        only_s = sorted(S - R)
        only_r = sorted(R - S)
        m = refsem.elaborate(ast)
        tags = []
        if not R:
            tags.append("random-empty")
        if not S:
            tags.append("sat-empty")
        sig = "C07/solution-sets-differ/%s%s" % ("sat-only" if only_s and not only_r else ("random-only" if only_r and not only_s else "both"),
                                                  ("/" + ",".join(tags)) if tags else "")
        kinds = common.constraint_kinds(ast)
        detail = "IterateSATGen %d distinct, RandomGen %d distinct; only SAT: %s ; only RandomGen: %s ; gaps=%s ; design=%s" % (
            len(S), len(R), json.dumps(dict(only_s[0]))[:300] if only_s else None, json.dumps(dict(only_r[0]))[:300] if only_r else None,
            m.gaps, dast.describe(ast))
        base.update(outcome="violation", signature=common.with_family(sig, m, [g for g in m.gaps if g in ("run-constraint-on-strided-factor", "latinsquare", "sequential-with-preamble")]), detail=detail)
        return base
    base["outcome"] = "ok"
    return base


def shrink_candidates(case):
    yield from c06.shrink_candidates(case)
