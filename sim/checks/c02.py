"""C02 - exhausting IterateSATGen yields exactly the valid sequences (DESIGN.md section 6, C02)."""
import json
from collections import Counter

from .. import common, dast, gen, refsem, world as W

PROP = "C02"
LEVEL = "exploration"
RULE = ("seeded designs; IterateSATGen asked for |V|+3 sequences under two different peer policies (different model "
        "orders); returned multiset compared with the independent enumeration V (multiplicities per B.8), protocol "
        "liveness: peer invocations = returned + 1; non-trivial = |V| >= 2 and no documentation gap; distinct = "
        "(design skeleton, policy pair, transport)")
ASSUMPTIONS = ["reference semantics (sim/refsem.py) reads the documentation correctly",
               "fake peers return only genuine models of the clauses they receive"]
BUDGET = {"quick": 300, "thorough": 900}
RUNS = {"quick": 2500, "thorough": 200000}
THOROUGH_RUNS = 5000        # the thorough tier of this (expensive) check: a fixed range sized to stay within ~15 minutes
TIER_OF = {}


def gen_case(rs, tier):
    rng = W.stream(rs, "design")
    krng = W.stream(rs, "knobs")
    cfg = gen.swarm(krng, tier)
    cfg["combinators"] = krng.random() < 0.3
    ast = gen.gen_design(rng, cfg, tier)
    if ast is None:
        return None
    knobs = common.draw_knobs(krng)
    p2 = krng.choice([p for p in common.PEERS if p != knobs["peer"]])
    faults = []
    if krng.random() < 0.2:
        from .c01 import gen_faults
        faults = [f for f in gen_faults(W.stream(rs, "faults")) if f["kind"] != "stdout.epipe"]
    case = {"design": ast, "knobs": knobs, "peer2": p2, "tier": tier, "faults": faults}
    case["sweep"] = W.stream(rs, "sweep").random() < (0.15 if tier == "thorough" else 0.04)
    if case["sweep"]:
        case["timeout"] = 150        # one workload, run once per fault placement
    return case


def run_one(case):
    ast = case["design"]
    tier = case.get("tier", "quick")
    m = refsem.elaborate(ast)
    if m.status == "rejected":
        return {"outcome": "skip", "reason": "ref-rejected"}
    if m.gaps:
        return {"outcome": "skip", "reason": "doc-gap:" + m.gaps[0]}
    V = common.enum_or_skip(m, tier)
    if V is None:
        return {"outcome": "skip", "reason": "too-big"}
    total = sum(V.values())
    if total > (400 if tier == "quick" else 2500):
        return {"outcome": "skip", "reason": "too-big"}
    results = []
    digests = []
    counters = Counter()
    faults_fired = Counter()
    fe = None
    optrace = None
    for pi, peer in enumerate([case["knobs"]["peer"], case["peer2"]]):
        kn = dict(case["knobs"])
        kn["peer"] = peer
        faults = case.get("faults") if pi == 0 else None
        with W.SimWorld(case["run_seed"] + "/%d" % pi, kn, faults) as w:
            w.peer_calls_cap = total + 20
            blk, b, exc = common.construct(w, ast)
            if exc is not None:
                return common.result_base(w, outcome="skip", reason="constructor-refused:" + type(exc).__name__)
            if m.status == "ok" and blk.trials_per_sample() != m.T:
                return common.result_base(w, outcome="skip", reason="trial-count-differs(C16)")
            try:
                res, exc = common.synth(w, blk, "IterateSATGen", total + 3)
            except W.HarnessCap:
                digests.append(w.digest())
                sig = "C02/LIVENESS/peer-invoked-more-than-|V|+20-times"
                return common.result_base(w, outcome="violation", signature=sig,
                                          detail="IterateSATGen keeps invoking the solver: %d calls for |V|=%d ; design=%s" % (w.counters.get("peer.solve"), total, dast.describe(ast)))
            digests.append(w.digest())
            counters.update(w.counters)
            faults_fired.update(w.fault_fired)
            fe = fe or common.first_events(w)
            if pi == 0 and kn.get("optrace"):
                optrace = {"fs": list(w.op_trace["fs"]), "peer": list(w.op_trace["peer"]), "stdout": w.stdout.nchars}
            if exc is not None:
                if w.fault_fired:
                    results.append(None)
                    continue
                return {"outcome": "skip", "reason": "exception(C08):" + type(exc).__name__, "digest": "|".join(digests)}
            L = common.lib_multiset(m, res)
            results.append((L, w.counters.get("peer.solve", 0), len(res), bool(w.fault_fired)))
    base = {"digest": W._sha1("|".join(digests)), "counters": dict(counters), "faults": dict(faults_fired), "first_events": fe,
            "key": str((dast.skeleton(ast), case["knobs"]["peer"], case["peer2"], case["knobs"]["transport"])),
            "nontrivial": total >= 2,
            "summary": {"design": dast.describe(ast), "T": m.T, "V_distinct": len(V), "V_total": total,
                        "policies": [case["knobs"]["peer"], case["peer2"]], "transport": case["knobs"]["transport"],
                        "faults": case.get("faults")}}
    if optrace is not None:
        base["optrace"] = optrace
    for pi, r in enumerate(results):
        if r is None:
            continue
        L, calls, n, faulted = r
        extra = {k: v for k, v in L.items() if v > V.get(k, 0)}
        missing = {k: v for k, v in V.items() if L.get(k, 0) < v}
        if extra:
            k0 = sorted(extra, key=repr)[0]
            notin = k0 not in V
            sig = "C02/%s" % ("not-valid" if notin else "returned-more-often-than-allowed")
            if notin and k0[0] != "MISSING-FACTOR":
                bad = refsem.valid(m, dict(zip(m.design, [list(x) for x in k0])))
                sig += "/" + (common.invalid_tail(m, bad) if bad else "?")
            base.update(outcome="violation", signature=common.with_family(sig, m),
                        detail="policy %s: %d returned, |V|=%d (distinct %d); e.g. %s x%d (allowed %d) ; design=%s" % (
                            [case["knobs"]["peer"], case["peer2"]][pi], n, total, len(V), json.dumps(refsem.key_to_named(m, k0) if k0[0] != "MISSING-FACTOR" else str(k0)), L[k0], V.get(k0, 0), dast.describe(ast)))
            return base
        if missing and not faulted:
            k0 = sorted(missing, key=repr)[0]
            sig = "C02/missing-valid-sequence" + ("/all" if not L else "")
            base.update(outcome="violation", signature=common.with_family(sig, m),
                        detail="policy %s: %d returned, |V|=%d; valid sequence never returned: %s (returned %d of %d) ; design=%s" % (
                            [case["knobs"]["peer"], case["peer2"]][pi], n, total, json.dumps(refsem.key_to_named(m, k0)), L.get(k0, 0), V[k0], dast.describe(ast)))
            return base
        if not faulted and (calls or n) and calls != n + 1:
            base.update(outcome="violation", signature="C02/protocol/solver-calls!=returned+1",
                        detail="peer invoked %d times for %d sequences ; design=%s" % (calls, n, dast.describe(ast)))
            return base
    full = [r for r in results if r is not None and not r[3]]
    if len(full) == 2 and full[0][0] != full[1][0]:
        base.update(outcome="violation", signature=common.with_family("C02/order-dependent-solution-set", m),
                    detail="policies disagree ; design=%s" % dast.describe(ast))
        return base
    base["outcome"] = "ok"
    return base


SWEEP_KINDS = ['fs.enospc', 'fs.eio', 'fs.eacces', 'fs.vanish', 'peer.raise', 'peer.unknown', 'peer.memory']


def run_case(case):
    """A sweep case runs the workload fault-free and then once per (operation index x fault kind) placement."""
    if case.get("sweep"):
        return common.fault_sweep(run_one, case, SWEEP_KINDS, cap=60 if case.get("tier") == "thorough" else 25)
    return run_one(case)


def shrink_candidates(case):
    yield from common.shrink_case(case)
