"""C16 - trial count follows the documented rules; every sequence has that length (DESIGN.md C16, sampler-visible form)."""
import json

from .. import common, dast, gen, refsem, smworld, world as W

PROP = "C16"
LEVEL = "exploration"
RULE = ("seeded designs (weights, exclusions with and without complete crossing, derived factors with start/stride, "
        "MinimumTrials, multi-crossing modes/alignments, Repeat/Merge/Nest); oracle: block.trials_per_sample() equals the "
        "documented arithmetic (reference R-T) and every sequence from every strategy that accepts the design (IterateSATGen, "
        "RandomGen, CMSGen, UniGen, SMGen under the virtual-clock world) has exactly that many entries for every factor; "
        "non-trivial = constructor accepted, no documentation gap, >=1 sequence returned; distinct = (design skeleton, T)")
ASSUMPTIONS = ["reference trial-count arithmetic (sim/refsem.py B.2-B.4) reads the documentation correctly"]
BUDGET = {"quick": 300, "thorough": 900}
RUNS = {"quick": 3000, "thorough": 450000}
STRATS = ["IterateSATGen", "RandomGen", "CMSGen", "UniGen", "SMGen"]


def gen_case(rs, tier):
    rng = W.stream(rs, "design")
    krng = W.stream(rs, "knobs")
    cfg = gen.swarm(krng, tier)
    cfg["combinators"] = krng.random() < 0.3
    cfg["bad_tables"] = False
    if krng.random() < 0.5:
        cfg["kinds"] = sorted(set(cfg["kinds"]) | {"mintrials", "exclude"})
    ast = gen.gen_design(rng, cfg, tier)
    if ast is None:
        return None
    knobs = common.draw_knobs(krng)
    return {"design": ast, "knobs": knobs, "n": 2, "strategies": krng.sample(STRATS, 3)}


def run_case(case):
    ast = case["design"]
    m = refsem.elaborate(ast)
    if m.status == "rejected":
        return {"outcome": "skip", "reason": "ref-rejected"}
    tgaps = [g for g in m.gaps if g not in ("latinsquare", "sequential-with-preamble", "run-constraint-on-strided-factor",
                                            "derived-none-universe", "transition-over-complex-arg")]
    if "nest-reference" in tgaps and ast["block"]["kind"] == "nest" and all(c.pre == 0 for c in m.crossings):
        # the trial count of a preamble-free Nest is documented (outer count x inner count, each with its own
        # MinimumTrials); only the sequences of a Nest have no reference enumeration
        tgaps = [g for g in tgaps if g != "nest-reference"]
    if "inner-mintrials-under-combinator" in tgaps and ast["block"]["kind"] in ("repeat", "merge"):
        # which trials "one repetition" of a stretched inner block covers is not documented, its *count* is: Repeat is
        # documented as Merge([block], constraints) in REPEAT mode, and a merged block keeps every operand's MinimumTrials
        tgaps = [g for g in tgaps if g != "inner-mintrials-under-combinator"]
    if tgaps:
        return {"outcome": "skip", "reason": "doc-gap:" + tgaps[0]}
    import sweetpea as sp
    with W.SimWorld(case["run_seed"], case["knobs"]) as w:
        w.peer_calls_cap = 100
        blk, b, exc = common.construct(w, ast)
        if exc is not None:
            return common.result_base(w, outcome="skip", reason="constructor-refused:" + type(exc).__name__)
        viols = []
        T_lib = blk.trials_per_sample()
        if m.status == "ok" and T_lib != m.T:
            viols.append((common.with_family("C16/trial-count-differs-from-documented/%s" % ast["block"]["kind"], m),
                          "block.trials_per_sample()=%d, documented arithmetic gives %d (crossings: %s)" % (
                              T_lib, m.T, [(c.size, c.pre, c.N) for c in m.crossings])))
        returned = 0
        sm = smworld.SMWorld(w, dt=1e-6, line_cap=150000)
        sm.install()
        for strat in case["strategies"]:
            w.rng.draws = 0
            w.draw_cap = 20000
            try:
                with common.time_limit(5):
                    if strat == "SMGen":
                        res, exc = sm.run(lambda: sp.synthesize_trials(blk, case["n"], sp.SMGen))
                    else:
                        res, exc = common.synth(w, blk, strat, case["n"])
            except (common.InnerTimeout, W.HarnessCap):
                continue
            if exc is not None or res is None:
                continue
            returned += len(res)
            for e in res:
                lens = {str(k): len(v) for k, v in e.items()}
                wrong = {k: v for k, v in lens.items() if v != T_lib}
                if wrong:
                    k0 = sorted(wrong)[0]
                    fam = strat if strat == "SMGen" else ("random" if strat == "RandomGen" else "sat")
                    viols.append((common.with_family("C16/sequence-length/%s/%s" % (fam, "shorter" if wrong[k0] < T_lib else "longer"), m),
                                  "%s returned %d entries for factor %s, block has %d trials ; sequence=%s" % (strat, wrong[k0], k0, T_lib, json.dumps(e, default=str)[:300])))
                    break
        base = common.result_base(w, key=str((dast.skeleton(ast), T_lib)), nontrivial=returned > 0 and m.status == "ok",
                                  summary={"design": dast.describe(ast), "T_library": T_lib, "T_documented": m.T, "returned": returned,
                                           "strategies": case["strategies"]})
        viol = common.pick_violation(PROP, viols)
        if viol:
            base.update(outcome="violation", signature=viol[0], detail=viol[1] + " ; design=" + dast.describe(ast))
            return base
        base["outcome"] = "ok"
        return base


def shrink_candidates(case):
    yield from common.shrink_case(case)
    if len(case["strategies"]) > 1:
        for s in case["strategies"]:
            c = dict(case)
            c["strategies"] = [s]
            yield c
