"""C24 - documented block-combinator equivalences hold (DESIGN.md C24, sampler-visible form).  No reference semantics."""
import json
from collections import Counter

from .. import build, common, dast, gen, gencomb, world as W

PROP = "C24"
LEVEL = "exploration"
RULE = ("the four documented laws as generator templates (MultiCrossBlock = Merge of CrossBlocks; Repeat(b,cs) = Merge([b],cs,"
        "REPEAT,EQUAL_PREAMBLE); Repeat(b,[]) = Merge([b]) = b; CrossBlock = MultiCrossBlock([crossing]) in WEIGHT mode); both sides "
        "built from fresh objects in one world and exhausted with IterateSATGen under the run's peer policy (RandomGen as a third "
        "witness where it accepts both); oracle: both constructors accept or both refuse, equal trials_per_sample(), equal solution "
        "multisets by level names; non-trivial = >=2 solutions; distinct = (law, design skeleton)")
ASSUMPTIONS = ["fake peers return only genuine models of the clauses they receive"]
BUDGET = {"quick": 300, "thorough": 900}
RUNS = {"quick": 1500, "thorough": 75000}
THOROUGH_RUNS = 3600        # the thorough tier of this (expensive) check: a fixed range sized to stay within ~15 minutes
LAWS = ["multicross=merge", "repeat=merge", "repeat-empty=block", "merge-single=block", "cross=multicross-weight"]


def gen_case(rs, tier):
    rng = W.stream(rs, "design")
    krng = W.stream(rs, "knobs")
    cfg = gen.swarm(krng, tier)
    cfg["bad_tables"] = False
    cfg["kinds"] = [k for k in cfg["kinds"] if k != "latinsquare"] or ["atmost"]
    law = krng.choice(LAWS)
    if law == "multicross=merge":
        ast = gencomb.gen_combinator_design(rng, cfg, tier, "multicross")
        b = ast["block"]
        rhs = {"kind": "merge", "blocks": [{"kind": "cross", "design": b["design"], "crossing": c, "constraints": [], "rcc": b["rcc"]} for c in b["crossings"]],
               "constraints": dast.clone(b["constraints"]), "mode": b["mode"], "alignment": b["alignment"]}
        lhs = b
    elif law == "repeat=merge":
        ast = gencomb.gen_combinator_design(rng, cfg, tier, "repeat")
        b = ast["block"]
        lhs = b
        rhs = {"kind": "merge", "blocks": [dast.clone(b["block"])], "constraints": dast.clone(b["constraints"]), "mode": "repeat", "alignment": "equal preamble"}
    else:
        ast = gen.gen_cross_design(rng, cfg, tier)
        if ast is None:
            return None
        b = ast["block"]
        if law == "repeat-empty=block":
            lhs, rhs = {"kind": "repeat", "block": dast.clone(b), "constraints": []}, b
        elif law == "merge-single=block":
            lhs, rhs = {"kind": "merge", "blocks": [dast.clone(b)], "constraints": [], "mode": None, "alignment": None}, b
        else:
            lhs = b
            rhs = {"kind": "multicross", "design": b["design"], "crossings": [b["crossing"]], "constraints": dast.clone(b["constraints"]),
                   "rcc": b["rcc"], "mode": "weight", "alignment": None}
    knobs = common.draw_knobs(krng, transports=("lib",))
    return {"law": law, "factors": ast["factors"], "lhs": lhs, "rhs": rhs, "knobs": knobs, "tier": tier}


def key(e):
    return tuple(sorted((str(k), tuple(v)) for k, v in e.items()))


def run_case(case):
    tier = case.get("tier", "quick")
    cap = 120 if tier == "quick" else 1500
    fa = {"factors": case["factors"], "block": case["lhs"]}
    fb_ = {"factors": case["factors"], "block": case["rhs"]}
    with W.SimWorld(case["run_seed"], case["knobs"]) as w:
        bl, _, el = common.construct(w, fa)
        br, _, er = common.construct(w, fb_)
        base = common.result_base(w, key=str((case["law"], dast.skeleton(fa))),
                                  summary={"law": case["law"], "lhs": dast.describe(fa), "rhs": dast.describe(fb_)[-200:]})
        if (el is None) != (er is None):
            base.update(outcome="violation", nontrivial=True,
                        signature="C24/%s/constructor-outcome-differs/%s" % (case["law"], "lhs-refuses" if el is not None else "rhs-refuses"),
                        detail="lhs: %s ; rhs: %s ; lhs=%s ; rhs=%s" % (repr(el)[:150], repr(er)[:150], dast.describe(fa), dast.describe(fb_)))
            return base
        if el is not None:
            base.update(outcome="skip", reason="both-refuse")
            return base
        viols = []
        if bl.trials_per_sample() != br.trials_per_sample():
            viols.append(("C24/%s/trial-count-differs" % case["law"], "lhs %d, rhs %d" % (bl.trials_per_sample(), br.trials_per_sample())))
        try:
            with common.time_limit(12):
                w.peer_calls_cap = cap + 30
                rl, xl = common.synth(w, bl, "IterateSATGen", cap + 1)
                w.peer_calls_cap = w.counters.get("peer.solve", 0) + cap + 30
                rr, xr = common.synth(w, br, "IterateSATGen", cap + 1)
        except (common.InnerTimeout, W.HarnessCap):
            base.update(outcome="skip", reason="cap")
            return base
        if (xl is None) != (xr is None):
            viols.append(("C24/%s/synthesis-outcome-differs" % case["law"], "lhs %r rhs %r" % (type(xl).__name__ if xl else None, type(xr).__name__ if xr else None)))
        elif xl is None:
            if len(rl) > cap or len(rr) > cap:
                base.update(outcome="skip", reason="too-big")
                return base
            L, R = Counter(key(e) for e in rl), Counter(key(e) for e in rr)
            base["nontrivial"] = max(len(rl), len(rr)) >= 2
            base["summary"].update({"lhs_solutions": len(rl), "rhs_solutions": len(rr)})
            if L != R:
                ol = sorted(set(L) - set(R))
                orr = sorted(set(R) - set(L))
                viols.append(("C24/%s/solution-sets-differ/%s" % (case["law"], "lhs-more" if ol and not orr else ("rhs-more" if orr and not ol else "both")),
                              "lhs %d solutions, rhs %d; only lhs: %s ; only rhs: %s" % (len(rl), len(rr), json.dumps(dict(ol[0]))[:250] if ol else None, json.dumps(dict(orr[0]))[:250] if orr else None)))
        base = common.result_base(w, **{k: base[k] for k in ("key", "summary") if k in base}, nontrivial=base.get("nontrivial", False))
        viol = common.pick_violation(PROP, viols)
        if viol:
            base.update(outcome="violation", signature=viol[0], detail=viol[1] + " ; lhs=%s ; rhs=%s" % (dast.describe(fa), dast.describe(fb_)))
            return base
        base["outcome"] = "ok"
        return base


def shrink_candidates(case):
    # shrink both sides together through the underlying parts: drop constraints that occur on both sides
    for side in ("lhs", "rhs"):
        ast = {"factors": case["factors"], "block": case[side]}
        for a in common.design_shrinks(ast):
            if a["block"]["kind"] != case[side]["kind"]:
                continue
            other = "rhs" if side == "lhs" else "lhs"
            ids_a = set(c.get("id") for _, c in dast.iter_constraints(a["block"]))
            ids_full = set(c.get("id") for _, c in dast.iter_constraints(case[side]))
            dropped = ids_full - ids_a
            if len(dropped) == 1 and a["factors"] == case["factors"]:
                o = dast.clone(case[other])
                for blk in dast.iter_blocks(o):
                    blk["constraints"] = [c for c in blk.get("constraints", []) if c.get("id") not in dropped]
                c = dict(case)
                c[side] = a["block"]
                c[other] = o
                yield c
