"""C15 - derived factors must be total, unambiguous functions of their window (DESIGN.md C15, sampler-visible form)."""
import json

from .. import common, dast, gen, refsem, world as W

PROP = "C15"
LEVEL = "exploration"
RULE = ("seeded designs whose derived-level tables are generated as data (total and unambiguous, or deliberately overlapping / "
        "non-covering on a reachable window, with ElseLevel, early start and stride); oracle: overlapping => the block "
        "constructor raises; non-covering => every strategy returns []; otherwise every returned sequence (IterateSATGen under "
        "all peer policies, RandomGen, CMSGen) gives each applicable trial exactly the level whose table accepts that trial's "
        "window and '' at trials before start / skipped by stride; non-trivial = >=1 derived factor and (>=1 sequence returned or "
        "a rejection/refusal expected); distinct = (design skeleton, table class, strategy)")
ASSUMPTIONS = ["derived-level predicates are tables, so totality/overlap are properties of the data and the reference and the library evaluate the same predicate"]
BUDGET = {"quick": 300, "thorough": 900}
RUNS = {"quick": 3000, "thorough": 300000}


def gen_case(rs, tier):
    rng = W.stream(rs, "design")
    krng = W.stream(rs, "knobs")
    cfg = gen.swarm(krng, tier)
    cfg["derived"] = max(1, cfg["derived"])
    cfg["bad_tables"] = krng.random() < 0.4
    cfg["else_level"] = krng.random() < 0.5
    cfg["n_constraints"] = min(cfg["n_constraints"], 1)
    ast = None
    for attempt in range(4):
        # C15 is about derived factors: draw again (from a stream of its own) when the design came out without one
        a = gen.gen_design(rng if attempt == 0 else W.stream(rs, "design-retry%d" % attempt), cfg, tier)
        if a is not None and any(f["kind"] == "derived" for f in a["factors"]):
            ast = a
            break
    if ast is None:
        return None
    knobs = common.draw_knobs(krng)
    return {"design": ast, "knobs": knobs, "n": krng.choice([1, 2, 4]),
            "strategies": krng.sample(["IterateSATGen", "RandomGen", "CMSGen"], 2)}


def run_case(case):
    ast = case["design"]
    m = refsem.elaborate(ast)
    if "derived-none-universe" in m.gaps:
        return {"outcome": "skip", "reason": "doc-gap:derived-none-universe"}
    with W.SimWorld(case["run_seed"], case["knobs"]) as w:
        w.peer_calls_cap = 100
        blk, b, exc = common.construct(w, ast)
        cls = m.status if m.status in ("rejected", "erroneous") else "total"
        key = str((dast.skeleton(ast), cls, tuple(case["strategies"])))
        if m.status == "rejected" and "two levels accept" in m.reason:
            base = common.result_base(w, key=key, nontrivial=True, summary={"design": dast.describe(ast), "expected": "constructor raises", "reason": m.reason})
            if exc is None:
                base.update(outcome="violation", signature="C15/overlapping-levels-not-rejected",
                            detail="%s but the block constructor accepted the design ; design=%s" % (m.reason, dast.describe(ast)))
                return base
            base["outcome"] = "ok"
            return base
        if m.status == "rejected":
            return common.result_base(w, outcome="skip", reason="ref-rejected-other")
        if exc is not None:
            if m.gaps:
                return common.result_base(w, outcome="skip", reason="constructor-refused:" + type(exc).__name__)
            # every level table of this design is total and unambiguous and nothing else about it is outside the documented
            # behaviour: a refusal means some derivation was evaluated as something other than the function that was declared
            base = common.result_base(w, key=key, nontrivial=True, summary={"design": dast.describe(ast)})
            base.update(outcome="violation", signature="C15/well-defined-design-refused/" + type(exc).__name__,
                        detail="the constructor refused a design whose derivations are total and unambiguous: %s: %s ; design=%s"
                        % (type(exc).__name__, str(exc)[:200], dast.describe(ast)))
            return base
        other_gaps = [g for g in m.gaps if g not in ("latinsquare", "sequential-with-preamble", "run-constraint-on-strided-factor")]
        if other_gaps:
            return common.result_base(w, outcome="skip", reason="doc-gap:" + other_gaps[0])
        viols = []
        returned = 0
        for strat in case["strategies"]:
            w.rng.draws = 0
            w.draw_cap = 20000
            boundaries = []
            c0 = w.stdout.nchars
            orig_write = w.stdout.write

            def write(s_, _b=boundaries, _o=orig_write):
                _b.append(w.stdout.nchars)
                return _o(s_)
            if m.status == "erroneous":
                w.stdout.write = write
            try:
                with common.time_limit(5):
                    res, exc = common.synth(w, blk, strat, case["n"])
            except (common.InnerTimeout, W.HarnessCap):
                continue
            finally:
                w.stdout.__dict__.pop("write", None)
            if exc is not None:
                continue
            returned += len(res)
            if m.status == "erroneous":
                if res:
                    viols.append(("C15/non-covering-levels-but-sequences-returned/%s" % ("sat" if strat != "RandomGen" else "random"),
                                  "%s ; %s returned %d sequences" % (m.reason, strat, len(res))))
                    continue
                # the same call again with the output stream failing once (EPIPE) at one write after the other: the report
                # of the error may be lost with the stream, the refusal to synthesize may not
                offs = sorted(set(b_ - c0 for b_ in boundaries))
                step = max(1, len(offs) // 10)
                for off in offs[::step][:12]:
                    w.stdout.epipe_after = w.stdout.nchars + off
                    try:
                        with common.time_limit(5):
                            res2, exc2 = common.synth(w, blk, strat, case["n"])
                    except (common.InnerTimeout, W.HarnessCap):
                        break
                    finally:
                        w.stdout.epipe_after = None
                    w.count("stdout-fault-placements")
                    if exc2 is None and res2:
                        viols.append(("C15/non-covering-levels-but-sequences-returned/%s/after-stdout-fault" % ("sat" if strat != "RandomGen" else "random"),
                                      "%s ; %s returned %d sequences when one write to stdout (at character %d of the call's output) failed with EPIPE" % (m.reason, strat, len(res2), off)))
                        break
                continue
            if blk.trials_per_sample() != m.T:
                continue
            for e in res:
                seq = refsem.named_to_seq(m, e)
                bad = [x for x in refsem.valid(m, seq) if x.startswith("derived") or x.startswith("trial-count")]
                if bad:
                    viols.append((common.with_family("C15/derived-level-wrong/%s/%s" % ("sat" if strat != "RandomGen" else "random", common.invalid_tail(m, bad)), m),
                                  "%s: %s ; sequence=%s" % (strat, bad[:2], json.dumps(e, default=str)[:400])))
                    break
        base = common.result_base(w, key=key, nontrivial=returned > 0 or m.status == "erroneous",
                                  summary={"design": dast.describe(ast), "class": cls, "returned": returned, "strategies": case["strategies"]})
        viol = common.pick_violation(PROP, viols)
        if viol:
            base.update(outcome="violation", signature=viol[0], detail=viol[1] + " ; design=" + dast.describe(ast))
            return base
        base["outcome"] = "ok"
        return base


def shrink_candidates(case):
    yield from common.shrink_case(case)
    if len(case["strategies"]) > 1:
        for s in case["strategies"]:
            c = dict(case)
            c["strategies"] = [s]
            yield c
