"""C19 - a block stays usable and unchanged across library calls (DESIGN.md C19).  Also hosts the history machine
that C20 reuses (run_history)."""
import csv
import io
import json
import math

from .. import common, dast, gen, refsem, smworld, world as W

PROP = "C19"
LEVEL = "exploration"
RULE = ("seeded histories of 3-12 public calls (synthesize_trials with every strategy, print_experiments, tabulate_experiments, "
        "save_experiments_csv, experiments_to_tuples/dicts, sample_mismatch_experiment) on one block, incl. designs with "
        "continuous, implied and weighted-uncrossed factors; invariants after every call (design, continuous factors, crossings, "
        "trial count) and every later synthesize_trials succeeds with the same columns and valid sequences; fault runs inject "
        "stdout EPIPE / ENOSPC inside calls; non-trivial = >=2 synthesize calls and >=1 other call; distinct = operation-kind sequence")
ASSUMPTIONS = ["reference semantics (sim/refsem.py) reads the documentation correctly (used for the validity part only)"]
BUDGET = {"quick": 300, "thorough": 900}
RUNS = {"quick": 3000, "thorough": 220000}
STRATS = ["IterateSATGen", "RandomGen", "CMSGen", "UniGen", "IterateGen", "UniformGen", "SMGen"]
OPS = ["synth", "synth", "print", "tabulate", "csv", "tuples", "dicts", "mismatch"]


def gen_history(hrng):
    n = hrng.randint(3, 12)
    ops = [{"op": "synth", "strategy": hrng.choice(STRATS), "n": hrng.choice([1, 1, 2, 3]), "out": "e0"}]
    nexp = 1
    for _ in range(n - 2):
        k = hrng.choice(OPS)
        if k == "synth":
            ops.append({"op": "synth", "strategy": hrng.choice(STRATS), "n": hrng.choice([0, 1, 1, 3, 4]), "out": "e%d" % nexp})
            nexp += 1
        elif k == "csv":
            ops.append({"op": "csv", "exp": "e%d" % hrng.randrange(nexp), "prefix": hrng.choice(["out", "experiment", "run_a"])})
        elif k == "mismatch":
            ops.append({"op": "mismatch", "exp": "e%d" % hrng.randrange(nexp)})
        else:
            ops.append({"op": k, "exp": "e%d" % hrng.randrange(nexp)})
    ops.append({"op": "synth", "strategy": hrng.choice(STRATS[:4]), "n": 1, "out": "e%d" % nexp})
    return ops


def gen_case(rs, tier, prop="C19"):
    rng = W.stream(rs, "design")
    krng = W.stream(rs, "knobs")
    cfg = gen.swarm(krng, tier)
    if W.stream(rs, "latin").random() < 0.7:
        cfg["kinds"] = [k for k in cfg["kinds"] if k != "latinsquare"] or ["atmost"]
    elif W.stream(rs, "latin2").random() < 0.5:
        cfg["kinds"] = ["latinsquare"]
        cfg["n_constraints"] = max(1, cfg["n_constraints"])
    if krng.random() < 0.5:
        cfg["weights"] = True
    ast = gen.gen_cross_design(rng, cfg, tier)
    if ast is None:
        return None
    if krng.random() < 0.5:
        gen.add_continuous(rng, ast)
    knobs = common.draw_knobs(krng)
    faults = []
    if krng.random() < 0.2:
        frng = W.stream(rs, "faults")
        for _ in range(frng.choice([1, 2])):
            if frng.random() < 0.5:
                faults.append({"kind": "stdout.epipe", "at": frng.randint(0, 1500)})
            else:
                faults.append({"kind": "fs.enospc", "at": frng.randint(0, 12), "arg": frng.choice([0.0, 0.5])})
    history = gen_history(W.stream(rs, "history"))
    vrng = W.stream(rs, "variants")
    for op in history:
        if op["op"] in ("csv", "tuples", "dicts"):
            # the caller may hand over an equal experiment with its keys in another order (a re-loaded or re-built dict) ...
            op["reorder"] = vrng.random() < 0.3
        if op["op"] == "csv":
            # ... and the target directory may already hold an older, longer file of the same name
            op["stale"] = vrng.random() < 0.3
    crng = W.stream(rs, "comb")
    if crng.random() < 0.2:
        # the same histories over blocks built with the combinators (MultiCrossBlock, Repeat, Merge, Nest)
        from .. import gencomb
        cfg2 = dict(cfg, combinators=True)
        a2 = gencomb.gen_combinator_design(W.stream(rs, "design-comb"), cfg2, tier)
        if a2 is not None:
            ast = a2
    arng = W.stream(rs, "abort")
    if arng.random() < 0.12:
        # the user interrupts one call of the history at an arbitrary line (KeyboardInterrupt-like)
        faults.append({"kind": "abort@line", "op": arng.randrange(len(history) - 1), "at": int(math.exp(arng.uniform(0, math.log(200000))))})
    return {"design": ast, "knobs": knobs, "history": history, "faults": faults, "tier": tier}


def snapshot(blk):
    return {"design": [str(getattr(f.name, "name", f.name)) + ("(hidden)" if not isinstance(f.name, str) else "") for f in blk.design],
            "continuous": [f.name for f in blk.continuous_factors],
            "crossings": [[str(f.name) for f in c] for c in blk.crossings],
            "T": blk.trials_per_sample()}


def user_columns(ast):
    fb = dast.factors_by_id(ast)
    return [fb[i]["name"] for i in dast.block_design_ids(ast["block"])]


def run_history(case):
    """Executes the history.  Returns (early_result|None, obs) where obs carries what both C19 and C20 judge."""
    ast = case["design"]
    m = refsem.elaborate(ast)
    if m.status == "rejected":
        return {"outcome": "skip", "reason": "ref-rejected"}, None
    obs = {"m": m, "ast": ast, "c19": [], "c20": [], "ops": [], "synth_ok": 0, "other_ops": 0}
    import sweetpea as sp
    w = W.SimWorld(case["run_seed"], case["knobs"], case.get("faults"), keep_stdout=False)
    w.__enter__()
    try:
        from .. import build
        try:
            bld = build.Builder(ast, continuous_env=w)
            blk = bld.block(ast["block"])
        except Exception as e:
            return common.result_base(w, outcome="skip", reason="constructor-refused:" + type(e).__name__), None
        snap0 = snapshot(blk)
        ucols = user_columns(ast)
        sm = smworld.SMWorld(w, dt=1e-6, line_cap=60000)
        sm.install()
        exps = {}
        first_cols = None
        aborts = {f["op"]: f["at"] for f in (case.get("faults") or []) if f["kind"] == "abort@line"}
        for oi, op in enumerate(case["history"]):
            kind = op["op"]
            faults_before = sum(w.fault_fired.values())
            err = None
            w.draw_cap = w.rng.draws + 20000
            w.peer_calls_cap = w.counters.get("peer.solve", 0) + 60
            try:
                with common.time_limit(2 if oi not in aborts else 6), common.LineAbort(w, aborts.get(oi) if not (kind == "synth" and op["strategy"] == "SMGen") else None):
                    if kind == "synth":
                        if op["strategy"] == "SMGen":
                            res, smerr = sm.run(lambda: sp.synthesize_trials(blk, op["n"], sp.SMGen))
                            if smerr is not None:
                                # refusal / no answer within the line cap: SMGen's own business (C29), not a history effect
                                obs["ops"].append("synth:SMGen-" + type(smerr).__name__)
                                continue
                        else:
                            res = sp.synthesize_trials(blk, op["n"], common.strategy(op["strategy"]))
                        exps[op["out"]] = res
                    else:
                        e = exps.get(op["exp"])
                        if not e:
                            obs["ops"].append(kind + ":noexp")
                            continue
                        if op.get("reorder"):
                            e = [{k: list(x[k]) for k in reversed(list(x))} for x in e]
                            w.count("conversion-on-reordered-experiment")
                        if op.get("stale"):
                            w.fs.files["%s_0.csv" % op["prefix"]] = "stale,header,of,an,older,run\n" + "a,b,c,d,e,f\n" * 40
                            w.count("csv-over-stale-file")
                        if kind == "print":
                            sp.print_experiments(blk, e)
                        elif kind == "tabulate":
                            if len(blk.crossings) == 1:
                                sp.tabulate_experiments(blk, e)
                            else:
                                continue
                        elif kind == "csv":
                            before = set(w.fs.files)
                            sp.save_experiments_csv(blk, e, op["prefix"])
                            obs["c20"].append(("csv", oi, e, op["prefix"], {k: w.fs.files[k] for k in w.fs.files if k.endswith(".csv")},
                                               sum(w.fault_fired.values()) - faults_before))
                        elif kind == "tuples":
                            obs["c20"].append(("tuples", oi, e, sp.experiments_to_tuples(blk, e)))
                        elif kind == "dicts":
                            obs["c20"].append(("dicts", oi, e, sp.experiments_to_dicts(blk, e)))
                        elif kind == "mismatch":
                            mm = sp.sample_mismatch_experiment(blk, dict(e[0]))
                            obs["mismatch"] = obs.get("mismatch", 0) + 1
                        obs["other_ops"] += 1
            except (common.InnerTimeout, W.HarnessCap):
                obs["ops"].append(kind + ":cap")
                exps.pop(op.get("out"), None)
                continue
            except smworld.SimAbort as e:
                err = e             # the call was interrupted; everything after it is judged as usual
            except Exception as e:   # noqa
                err = e
            faulted_now = sum(w.fault_fired.values()) > faults_before
            w.log.append(("op", oi, kind, type(err).__name__ if err else "ok"))
            obs["ops"].append(kind + (":" + type(err).__name__ if err else ""))
            snap = snapshot(blk)
            if snap != snap0:
                changed = [k for k in snap0 if snap[k] != snap0[k]]
                obs["c19"].append(("C19/block-changed/%s/op=%s" % (",".join(changed), kind),
                                   "after op %d (%s) block.%s changed from %r to %r" % (oi, kind, changed[0], snap0[changed[0]], snap[changed[0]])))
                snap0 = snap     # report each change once
            if kind == "synth":
                if err is not None:
                    if faulted_now or common.is_injected(err):
                        exps.pop(op["out"], None)
                        continue
                    prior = [o for o in obs["ops"][:-1] if not o.startswith("synth")]
                    # the reference for "succeeds" is the same call on a fresh, unshared block in the same world
                    fresh_err = None
                    fired_before_fresh = sum(w.fault_fired.values())
                    try:
                        fb_ = build.Builder(ast, continuous_env=w).block(ast["block"])
                        with common.time_limit(5):
                            sp.synthesize_trials(fb_, op["n"], common.strategy(op["strategy"]))
                    except (common.InnerTimeout, W.HarnessCap):
                        fresh_err = "cap"
                    except Exception as fe:   # noqa
                        fresh_err = type(fe).__name__
                        if common.is_injected(fe):
                            fresh_err = "cap"
                    if sum(w.fault_fired.values()) > fired_before_fresh:
                        # an injected fault hit the reference call itself: it says nothing about the fresh block
                        fresh_err = "cap"
                    if fresh_err == "cap" or fresh_err == type(err).__name__:
                        obs["ops"][-1] = "synth:fresh-fails-too"
                        exps.pop(op["out"], None)
                        continue
                    if prior or obs["synth_ok"]:
                        # a first-call failure is C08's business; a failure only after other calls is C19's
                        frame, cls = common.innermost_frame_info(err)
                        obs["c19"].append(("C19/later-synthesize-fails/%s@%s" % (type(err).__name__, frame),
                                           "op %d synthesize_trials(%s, n=%d) raised %s: %s after %s" % (oi, op["strategy"], op["n"], type(err).__name__, str(err)[:150], obs["ops"][:-1])))
                    else:
                        return common.result_base(w, outcome="skip", reason="first-synthesize-raised(C08):" + type(err).__name__), None
                    continue
                obs["synth_ok"] += 1
                res = exps[op["out"]]
                if not res and op["n"] > 0 and len(obs["ops"]) > 1 and op["strategy"] != "SMGen" and not faulted_now:
                    # nothing came back: is that the design, or the history?  Ask a fresh block in the same world.
                    try:
                        fb_ = build.Builder(ast, continuous_env=w).block(ast["block"])
                        w.draw_cap = w.rng.draws + 20000
                        w.peer_calls_cap = w.counters.get("peer.solve", 0) + 60
                        with common.time_limit(5):
                            fres = sp.synthesize_trials(fb_, op["n"], common.strategy(op["strategy"]))
                        if fres:
                            obs["c19"].append(("C19/later-synthesize-returns-nothing",
                                               "op %d synthesize_trials(%s, n=%d) returned [] after %s, but returns %d sequence(s) on a fresh block" % (
                                                   oi, op["strategy"], op["n"], obs["ops"][:-1], len(fres))))
                    except (common.InnerTimeout, W.HarnessCap):
                        pass
                    except Exception:   # noqa
                        pass
                for e in res:
                    hidden = [k for k in e if not isinstance(k, str)]
                    if hidden:
                        obs["c20"].append(("hidden", oi, hidden))
                    cols = sorted(str(k) for k in e.keys())
                    if first_cols is None:
                        first_cols = cols
                    elif cols != first_cols:
                        obs["c19"].append(("C19/columns-changed", "op %d returned columns %r, first call returned %r" % (oi, cols, first_cols)))
                    missing = [c for c in ucols if c not in e]
                    if missing:
                        obs["c20"].append(("missing-column", oi, missing))
                    if not m.gaps and m.status == "ok" and blk.trials_per_sample() == m.T:
                        bad = refsem.valid(m, refsem.named_to_seq(m, e))
                        if bad and obs["synth_ok"] == 1:
                            obs["first_invalid"] = True      # invalid from the start: C01/C04's business, not a history effect
                        if bad and obs["synth_ok"] > 1 and not obs.get("first_invalid"):
                            obs["c19"].append(("C19/later-sequence-invalid/" + common.invalid_tail(m, bad), "op %d: %s" % (oi, bad[:2])))
        # --- at the end of the history: the block answers as a block built just now from fresh objects does.  Under the
        # lexmin/lexmax peers the answer to IterateSATGen is a function of the formula alone, so the two lists are equal
        # whatever the design (no reference semantics needed, LatinSquare and the other documentation gaps included).
        if case["knobs"]["peer"] in ("lexmin", "lexmax") and not case.get("faults") and obs["synth_ok"] >= 1:
            try:
                with common.time_limit(6):
                    w.peer_calls_cap = w.counters.get("peer.solve", 0) + 40
                    twin = build.Builder(ast, continuous_env=w).block(ast["block"])
                    r_used, e_used = common.synth(w, blk, "IterateSATGen", 3)
                    r_twin, e_twin = common.synth(w, twin, "IterateSATGen", 3)
                if e_used is None and e_twin is None:
                    w.count("end-of-history-twin-probe")
                    cont = set(f["name"] for f in ast["factors"] if f["kind"] == "continuous")
                    proj = lambda rr: [{str(k): list(map(str, v)) for k, v in e.items() if k not in cont} for e in rr]
                    if proj(r_used) != proj(r_twin):
                        obs["c19"].append(("C19/answers-differ-from-a-fresh-block-after-history",
                                           "after the history IterateSATGen(n=3) returns %s on the used block and %s on a block built from fresh objects (peer %s)"
                                           % (json.dumps(proj(r_used))[:300], json.dumps(proj(r_twin))[:300], case["knobs"]["peer"])))
            except (common.InnerTimeout, W.HarnessCap):
                pass
            except Exception:   # noqa: a constructor or call failing here is C08's business
                pass
        obs["base"] = common.result_base(w, key=str(tuple(o.split(":")[0] for o in obs["ops"])),
                                         nontrivial=obs["synth_ok"] >= 2 and obs["other_ops"] >= 1,
                                         summary={"design": dast.describe(ast), "ops": obs["ops"], "faults": case.get("faults"),
                                                  "columns": first_cols})
        obs["ucols"] = ucols
        obs["blk"] = blk
        return None, obs
    finally:
        w.__exit__(None, None, None)


def run_case(case):
    early, obs = run_history(case)
    if early is not None:
        return early
    base = obs["base"]
    viol = common.pick_violation(PROP, obs["c19"])
    if viol:
        base.update(outcome="violation", signature=viol[0], detail=viol[1] + " ; history=%s ; design=%s" % (obs["ops"], dast.describe(obs["ast"])))
        return base
    base["outcome"] = "ok"
    return base


def shrink_candidates(case):
    h = case["history"]
    for i in range(len(h)):
        used = h[i].get("out")
        if used and any(o.get("exp") == used for o in h[i + 1:]):
            continue
        c = dict(case)
        c["history"] = h[:i] + h[i + 1:]
        # abort faults name the operation they interrupt by index: keep them pointing at the same operation
        c["faults"] = [dict(f, op=f["op"] - 1) if f["kind"] == "abort@line" and f["op"] > i else f
                       for f in (case.get("faults") or []) if not (f["kind"] == "abort@line" and f["op"] == i)]
        if any(o["op"] == "synth" for o in c["history"]):
            yield c
    yield from common.shrink_case(case)
    for i, o in enumerate(h):
        if o["op"] == "synth" and o["n"] > 1:
            c = dict(case)
            c["history"] = [dict(x) for x in h]
            c["history"][i]["n"] = 1
            yield c
