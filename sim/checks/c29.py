"""C29 - SMGen either refuses a design or returns valid sequences (DESIGN.md C29): scripted random(), virtual clock,
fake timer fired at chosen instants and in a chosen thread, histories of calls over SMGen's process-global state."""
import json

from .. import common, dast, gen, refsem, smworld, world as W

PROP = "C29"
LEVEL = "exploration"
RULE = ("seeded histories of 1-4 SMGen calls in one process on generated designs (supported ones and ones carrying features "
        "SMGen does not support or does not mention); scattered_map_core.random scripted, virtual clock advanced per traced "
        "line, fake Timer fired clock-driven or pinned to an instant after arming, delivered in a helper thread (production) or "
        "in the main thread, user abort at a traced line of one call; oracle: every returned sequence valid per the reference "
        "semantics (trial count, crossing with weights, derived levels, every constraint) or the call raises; non-trivial = "
        ">=1 call returned >=1 sequence; distinct = (design skeletons, timer mode, delivery)")
ASSUMPTIONS = ["reference semantics (sim/refsem.py) reads the documentation correctly",
               "line events of scattered_map_core.py are the pre-emption points at which the timer can fire"]
BUDGET = {"quick": 300, "thorough": 900}
RUNS = {"quick": 3000, "thorough": 180000}


def sm_cfg(krng, tier):
    cfg = gen.swarm(krng, tier)
    cfg["win_window"] = False
    cfg["nested_derived"] = krng.random() < 0.1
    cfg["bad_tables"] = False
    cfg["sm_single_arg_transition"] = True
    cfg["kinds"] = krng.sample(list(dast.ALL_CONSTRAINT_KINDS), 2)
    cfg["n_constraints"] = krng.choice([0, 0, 0, 1, 1, 2])
    cfg["empty_crossing"] = False
    return cfg


def hard_search_case(rs, tier):
    """A search that has to back-track a lot: three or four levels per factor and a transition factor, all crossed
    (25-37 trials).  The branches of SMGen's search that only run after many back-steps are reached here."""
    brng = W.stream(rs, "hard-design")
    nc, nw = brng.choice([(4, 4), (4, 4), (3, 3), (4, 3)])
    color = {"id": "f0", "kind": "basic", "name": "color", "levels": [["c%d" % i, 1] for i in range(nc)]}
    word = {"id": "f1", "kind": "basic", "name": "word", "levels": [["w%d" % i, 1] for i in range(nw)]}
    names = [n for n, _ in color["levels"]]
    rep = {"id": "d1", "kind": "derived", "name": "repeat", "window": {"kind": "transition", "width": 2, "stride": 1, "start": 1},
           "args": ["f0"], "levels": [{"name": "rep", "weight": 1, "table": [[[a, a]] for a in names]},
                                       {"name": "sw", "weight": 1, "table": [[[a, b]] for a in names for b in names if a != b]}]}
    ast = {"factors": [color, word, rep], "block": {"kind": "cross", "design": ["f0", "f1", "d1"], "crossing": ["f0", "f1", "d1"], "constraints": [], "rcc": True}}
    knobs = common.draw_knobs(W.stream(rs, "knobs"))
    return {"designs": [ast], "calls": [{"design": 0, "n": brng.choice([2, 3]), "abort_at": None}], "knobs": knobs, "hard": True, "timeout": 150,
            "timer": {"mode": "clock-fast", "fire_after": None, "dt": 1e-6, "delivery": "thread"}}


def gen_case(rs, tier):
    if W.stream(rs, "hard").random() < (0.004 if tier == "thorough" else 0.002):
        return hard_search_case(rs, tier)
    krng = W.stream(rs, "knobs")
    hrng = W.stream(rs, "history")
    ncalls = hrng.choice([1, 1, 2, 2, 3, 4])
    designs = []
    calls = []
    for i in range(ncalls):
        if designs and hrng.random() < 0.4:
            di = hrng.randrange(len(designs))
        else:
            rng = W.stream(rs, "design%d" % i)
            if hrng.random() < 0.4:
                ast = gen.gen_template_design(rng, sm_cfg(krng, tier), tier, smgen_friendly=True)
            else:
                ast = gen.gen_cross_design(rng, sm_cfg(krng, tier), tier)
            if ast is None:
                continue
            if hrng.random() < 0.15:
                ast = {"factors": ast["factors"], "block": {"kind": "repeat", "block": ast["block"],
                                                            "constraints": [{"id": "rm", "kind": "mintrials", "n": hrng.choice([4, 6, 8])}]}}
            designs.append(ast)
            di = len(designs) - 1
        calls.append({"design": di, "n": hrng.choice([1, 1, 2, 3]),
                      "abort_at": hrng.randint(1, 4000) if hrng.random() < 0.12 else None})
    if not calls:
        return None
    knobs = common.draw_knobs(krng)
    timer = krng.choice(["clock-fast", "clock-fast", "clock-slow", "pinned", "pinned"])
    return {"designs": designs, "calls": calls, "knobs": knobs,
            "timer": {"mode": timer, "fire_after": krng.choice([0, 1, 5, 50, 500, 3000]) if timer == "pinned" else None,
                      "dt": 0.05 if timer == "clock-slow" else 1e-6,
                      "delivery": krng.choice(["thread", "thread", "interrupt-main"])}}


def run_case(case):
    ms = [refsem.elaborate(a) for a in case["designs"]]
    tm = case["timer"]
    import sweetpea as sp
    with W.SimWorld(case["run_seed"], case["knobs"]) as w:
        sm = smworld.SMWorld(w, dt=tm["dt"], delivery=tm["delivery"], fire_after=tm["fire_after"], line_cap=200000 if not case.get("hard") else 60_000_000)
        if case.get("hard"):
            w.log_cap = 5000
        sm.install()
        blocks = {}
        viols = []
        returned = 0
        outcomes = []
        for ci, call in enumerate(case["calls"]):
            di = call["design"]
            ast = case["designs"][di]
            m = ms[di]
            if m.status == "rejected":
                outcomes.append("ref-rejected")
                continue
            if di not in blocks:
                blk, b, exc = common.construct(w, ast)
                if exc is not None:
                    outcomes.append("constructor-refused")
                    blocks[di] = None
                    continue
                blocks[di] = blk
            blk = blocks[di]
            if blk is None:
                continue
            sm.abort_at = call.get("abort_at")
            res, exc = sm.run(lambda: sp.synthesize_trials(blk, call["n"], sp.SMGen))
            if exc is not None:
                kind = type(exc).__name__
                if isinstance(exc, smworld.LineCap):
                    outcomes.append("NO-ANSWER")
                elif isinstance(exc, smworld.SimAbort):
                    outcomes.append("aborted")
                elif "not supported by SMGen" in str(exc) or "Unsupported level" in str(exc):
                    outcomes.append("refused")
                else:
                    outcomes.append("raised:" + kind)
                w.log.append(("op", ci, "SMGen", outcomes[-1]))
                if tm["mode"] != "clock-fast":
                    sm.fire_leaked()
                continue
            w.log.append(("op", ci, "SMGen", len(res), W._sha1(repr(res))))
            outcomes.append("returned:%d" % len(res))
            returned += len(res)
            if len(res) != call["n"]:
                viols.append(("C29/count", "call %d: asked %d, got %d" % (ci, call["n"], len(res))))
            if m.gaps:
                continue
            if m.status == "ok" and blk.trials_per_sample() != m.T:
                continue
            for e in res:
                seq = refsem.named_to_seq(m, e)
                bad = refsem.valid(m, seq)
                if m.status in ("erroneous", "empty") and not bad:
                    bad = ["design has no valid sequence (%s)" % m.reason]
                if bad:
                    tail = common.invalid_tail(m, bad)
                    ctx = []
                    if ast["block"]["kind"] != "cross":
                        ctx.append("block=" + ast["block"]["kind"])
                    if any(o in ("aborted",) or o.startswith("raised") for o in outcomes[:-1]):
                        ctx.append("after-aborted-call")
                    if sm.fired_during and tm["delivery"] == "thread" and any(s for s in sm.fired_during):
                        pass
                    viols.append(("C29/invalid/%s%s" % (tail, ("/" + ",".join(ctx)) if ctx else ""),
                                  "call %d (history %s): %s ; sequence=%s ; design=%s" % (ci, outcomes, bad[:2], json.dumps(e, default=str)[:400], dast.describe(ast))))
                    break
            if tm["mode"] != "clock-fast":
                sm.fire_leaked()
        base = common.result_base(w, key=str((tuple(dast.skeleton(a) for a in case["designs"]), tm["mode"], tm["delivery"])),
                                  nontrivial=returned >= 1,
                                  summary={"designs": [dast.describe(a) for a in case["designs"]], "calls": case["calls"], "timer": tm,
                                           "outcomes": outcomes, "virtual_seconds": round(sm.now - 1000.0, 3), "traced_lines": sm.steps,
                                           "timers_fired_at": sm.fired_during[:5], "timer_thread_exceptions": sm.thread_exceptions[:3],
                                           "timers_left_armed": sm.leaked})
        base["counters"]["traced_lines"] = sm.steps
        base["counters"]["virtual_ms"] = int((sm.now - 1000.0) * 1000)
        base["counters"]["timer_left_armed"] = sm.leaked
        base["counters"]["timer_thread_exception"] = len(sm.thread_exceptions)
        viol = common.pick_violation(PROP, viols)
        if viol:
            base.update(outcome="violation", signature=viol[0], detail=viol[1])
            return base
        base["outcome"] = "ok"
        return base


def shrink_candidates(case):
    calls = case["calls"]
    for i in range(len(calls)):
        if len(calls) > 1:
            c = dict(case)
            c["calls"] = calls[:i] + calls[i + 1:]
            yield c
    for di, ast in enumerate(case["designs"]):
        for a in common.design_shrinks(ast):
            c = dict(case)
            c["designs"] = list(case["designs"])
            c["designs"][di] = a
            yield c
    for i, call in enumerate(calls):
        if call["n"] > 1 or call.get("abort_at"):
            c = dict(case)
            c["calls"] = [dict(x) for x in calls]
            c["calls"][i]["n"] = 1
            c["calls"][i]["abort_at"] = None
            yield c
    if case["timer"]["mode"] != "clock-fast":
        c = dict(case)
        c["timer"] = {"mode": "clock-fast", "fire_after": None, "dt": 1e-6, "delivery": "thread"}
        yield c
