"""C28 - ILP export accepts the same assignments as the SAT encoding (DESIGN.md C28), with a fake Gurobi peer."""
import itertools
import json
import sys

import sweetpea._internal.core.generate.sample_non_uniform   # noqa
from sweetpea._internal.core import CNF
from sweetpea._internal.core.cnf import Var
from sweetpea._internal.core.generate import sample_ilp as M_ilp
from sweetpea._internal.core.generate.utility import GenerationRequest, AssertionType

from .. import common, dast, gen, gurobi, world as W

M_snu = sys.modules["sweetpea._internal.core.generate.sample_non_uniform"]

PROP = "C28"
LEVEL = "exploration"
RULE = ("two modes.  direct: seeded clause sets over <=10 variables with EQ/LT/GT cardinality requests handed to "
        "sample_ilp_iterate (FakeGurobi reads every round's OPB text from SimFS and answers by the peer policy) and to "
        "sample_non_uniform (SAT side) in one world; oracle: the two exhausted projected solution sets are equal (a brute-force "
        "evaluation of the documented meaning says which side deviates), each appended OPB constraint excludes exactly the "
        "previous solution.  design: synthesize_trials(block, N, IterateILPGen) vs IterateSATGen on generated designs.  "
        "non-trivial = >=2 solutions on either side; distinct = (request kinds, n, #clauses) or design skeleton")
ASSUMPTIONS = ["sim/gurobi.py reads OPB as linear +-1 pseudo-Boolean constraints terminated by ';' (no header line is written by the library)",
               "requests with k beyond the number of variables are included since the SAT side was repaired (F2, F27); the brute-force evaluation of the documented meaning is the referee for both sides"]
BUDGET = {"quick": 300, "thorough": 900}
RUNS = {"quick": 3000, "thorough": 150000}


def gen_case(rs, tier):
    krng = W.stream(rs, "knobs")
    knobs = common.draw_knobs(krng, transports=("lib",))
    if krng.random() < 0.65:
        rng = W.stream(rs, "design")
        n = rng.randint(2, 8 if tier == "quick" else 10)
        support = rng.randint(1, n)
        clauses = []
        for _ in range(rng.randint(0, 5)):
            k = rng.randint(1, min(3, n))
            if rng.random() < 0.3:
                # clauses may repeat a literal or contain a literal and its negation: legal, and rendered literal by literal
                vs = [rng.randint(1, n) for _ in range(rng.randint(2, 4))]
                signs = {}
                lits = []
                for v in vs:
                    sg = signs.setdefault(v, rng.random() < 0.5) if rng.random() < 0.8 else (rng.random() < 0.5)
                    lits.append(v if sg else -v)
                clauses.append(lits)
                continue
            vs = rng.sample(range(1, n + 1), k)
            clauses.append([v if rng.random() < 0.5 else -v for v in vs])
        reqs = []
        for _ in range(rng.randint(1, 3)):
            kind = rng.choice(["EQ", "LT", "GT"])
            m = rng.randint(1, n)
            vs = sorted(rng.sample(range(1, n + 1), m))
            # k also beyond the number of variables ("fewer than 7 of 5" holds trivially, "exactly 7 of 5" and "more than 5
            # of 5" are unsatisfiable): block compilation produces such requests for partial last rounds of weighted
            # crossings, and the SAT side has handled them since F2/F27
            beyond = rng.random() < 0.2
            if kind == "GT":
                k = rng.randint(0, m - 1) if not beyond else rng.randint(m, m + 2)
            elif kind == "LT":
                k = rng.randint(1, m) if not beyond else rng.randint(m + 1, m + 3)
            else:
                k = rng.randint(0, m) if not beyond else rng.randint(m + 1, m + 2)
            if kind == "EQ" and rng.random() < 0.15:
                # a request over no variables at all (ExactlyK on a level of a window factor wider than the block is long
                # compiles to one): "exactly 1 of none" is unsatisfiable, "exactly 0 of none" holds.  (The CNF side refuses
                # "fewer/more than k of none" with ValueError, so there is nothing to compare for those.)
                vs = []
                k = rng.choice([0, 1, 1, 2])
            reqs.append([kind, k, vs])
        # make every variable 1..n occur somewhere, so that both sides talk about the same variable set
        # (a request does not count: "fewer than 3 of 2" holds trivially and compiles to nothing, and a variable that occurs in
        # no clause at all is outside what an in-process solver reports a value for)
        used = set(abs(l) for c in clauses for l in c)
        for v in range(1, n + 1):
            if v not in used:
                clauses.append([v, -v])
        return {"mode": "direct", "n": n, "support": support, "clauses": clauses, "requests": reqs, "knobs": knobs}
    rng = W.stream(rs, "design")
    cfg = gen.swarm(krng, tier)
    ast = gen.gen_design(rng, cfg, tier)
    if ast is None:
        return None
    return {"mode": "design", "design": ast, "knobs": knobs}


def brute(case):
    n = case["n"]
    out = set()
    for bits in itertools.product([False, True], repeat=n):
        a = {i + 1: bits[i] for i in range(n)}
        if not all(any((a[abs(l)] if l > 0 else not a[abs(l)]) for l in c) for c in case["clauses"]):
            continue
        ok = True
        for kind, k, vs in case["requests"]:
            cnt = sum(1 for v in vs if a[v])
            if kind == "EQ" and cnt != k:
                ok = False
            if kind == "LT" and not cnt < k:
                ok = False
            if kind == "GT" and not cnt > k:
                ok = False
        if ok:
            out.add(tuple(v if a[v] else -v for v in range(1, case["support"] + 1)))
    return out


def check_blocking(w, support):
    """Each appended OPB constraint must exclude exactly the previous solution."""
    rounds = w.opb_rounds
    for r in range(1, len(rounds)):
        prev_text, prev_cons, prev_model = rounds[r - 1]
        text, cons, _ = rounds[r]
        if prev_model is None:
            continue
        if not text.startswith(prev_text):
            return ("C28/rewrite/file-not-extended", "round %d: OPB text is not the previous text plus an appended constraint" % r)
        if len(cons) != len(prev_cons) + 1:
            return ("C28/rewrite/not-exactly-one-more-constraint", "round %d: %d constraints after %d" % (r, len(cons), len(prev_cons)))
        terms, rel, rhs = cons[-1]
        vars_ = sorted(x for _, x in terms)
        if vars_ != list(range(1, support + 1)):
            return ("C28/rewrite/blocking-constraint-variables", "round %d: blocks over %r, support is 1..%d" % (r, vars_[:12], support))
        a = dict(prev_model)
        if gurobi.eval_pb([cons[-1]], a):
            return ("C28/rewrite/previous-solution-not-excluded", "round %d: %r %s %d holds for the previous solution" % (r, terms[:6], rel, rhs))
        for v in vars_:
            b = dict(a)
            b[v] = not b[v]
            if not gurobi.eval_pb([cons[-1]], b):
                return ("C28/rewrite/blocks-more-than-previous-solution", "round %d: flipping v%d is excluded too" % (r, v))
    return None


def run_direct(case):
    with W.SimWorld(case["run_seed"], case["knobs"]) as w:
        gurobi.install(w)
        try:
            w.peer_calls_cap = 700
            cnf = CNF(case["clauses"])
            reqs = [GenerationRequest(AssertionType[k], kk, [Var(v) for v in vs]) for k, kk, vs in case["requests"]]
            E = brute(case)
            if len(E) > 60:
                return {"outcome": "skip", "reason": "too-big"}
            try:
                ilp = M_ilp.sample_ilp_iterate(len(E) + 5, cnf, case["support"], reqs)
                ilp_exc = None
            except W.HarnessCap:
                raise
            except Exception as e:   # noqa
                if type(e).__name__ in ("CaseTimeout", "InnerTimeout"):
                    raise
                ilp, ilp_exc = None, e
            blocking = check_blocking(w, case["support"]) if ilp is not None else None
            cnf2 = CNF(case["clauses"])
            try:
                sat = M_snu.sample_non_uniform(len(E) + 5, cnf2, case["n"], case["support"], reqs)
                sat_exc = None
            except W.HarnessCap:
                raise
            except Exception as e:   # noqa
                if type(e).__name__ in ("CaseTimeout", "InnerTimeout"):
                    raise
                sat, sat_exc = None, e
            base = common.result_base(w, key=str((tuple(sorted(r[0] for r in case["requests"])), case["n"], len(case["clauses"]))),
                                      nontrivial=len(E) >= 2,
                                      summary={"n": case["n"], "support": case["support"], "clauses": case["clauses"][:6],
                                               "requests": case["requests"], "expected": len(E),
                                               "ilp": None if ilp is None else len(ilp), "sat": None if sat is None else len(sat)})
            if ilp_exc is not None:
                frame, cls = common.innermost_frame_info(ilp_exc)
                base.update(outcome="violation", signature="C28/ilp-raises/%s@%s" % (type(ilp_exc).__name__, frame),
                            detail="sample_ilp_iterate raised %s: %s ; case=%s" % (type(ilp_exc).__name__, str(ilp_exc)[:200], json.dumps({k: case[k] for k in ("n", "support", "clauses", "requests")})))
                return base
            if sat_exc is not None:
                base.update(outcome="skip", reason="sat-side-raised:" + type(sat_exc).__name__)
                return base
            I = set(tuple(s.assignment) for s in ilp)
            S = set(tuple(s.assignment) for s in sat)
            if I != S:
                kinds = sorted(set(r[0] for r in case["requests"]))
                side = "ilp-deviates" if (S == E and I != E) else ("sat-deviates" if (I == E and S != E) else "both-deviate")
                base.update(outcome="violation", signature="C28/solution-sets-differ/%s/%s" % (side, "+".join(kinds)),
                            detail="ILP %d, SAT %d, documented meaning %d; only ILP: %s ; only SAT: %s ; case=%s" % (
                                len(I), len(S), len(E), sorted(I - S)[:2], sorted(S - I)[:2],
                                json.dumps({k: case[k] for k in ("n", "support", "clauses", "requests")})))
                return base
            if len(I) != len(ilp):
                base.update(outcome="violation", signature="C28/ilp-returns-duplicate", detail="%d returned, %d distinct" % (len(ilp), len(I)))
                return base
            if blocking:
                base.update(outcome="violation", signature=blocking[0], detail=blocking[1])
                return base
            base["outcome"] = "ok"
            return base
        finally:
            gurobi.uninstall(w)


def run_design(case):
    ast = case["design"]
    with W.SimWorld(case["run_seed"], case["knobs"]) as w:
        gurobi.install(w)
        try:
            blk, b, exc = common.construct(w, ast)
            if exc is not None:
                return common.result_base(w, outcome="skip", reason="constructor-refused:" + type(exc).__name__)
            w.peer_calls_cap = 500
            try:
                with common.time_limit(10):
                    sat, exc = common.synth(w, blk, "IterateSATGen", 60)
                    if exc is not None:
                        return common.result_base(w, outcome="skip", reason="exception(C08):" + type(exc).__name__)
                    if len(sat) >= 60:
                        return common.result_base(w, outcome="skip", reason="too-big")
                    w.peer_calls_cap = w.counters.get("peer.solve", 0) + len(sat) * 3 + 30
                    ilp, exc = common.synth(w, blk, "IterateILPGen", len(sat) + 5)
            except (common.InnerTimeout, W.HarnessCap):
                return common.result_base(w, outcome="skip", reason="cap")
            base = common.result_base(w, key=dast.skeleton(ast), nontrivial=len(sat) >= 2,
                                      summary={"design": dast.describe(ast), "sat": len(sat), "ilp": None if ilp is None else len(ilp)})
            if exc is not None:
                frame, cls = common.innermost_frame_info(exc)
                base.update(outcome="violation", signature="C28/ilp-raises/%s@%s" % (type(exc).__name__, frame),
                            detail="IterateILPGen raised %s: %s ; design=%s" % (type(exc).__name__, str(exc)[:200], dast.describe(ast)))
                return base
            key = lambda e: tuple(sorted((str(k), tuple(v)) for k, v in e.items()))
            S = [key(e) for e in sat]
            I = [key(e) for e in ilp]
            if sorted(S) != sorted(I):
                base.update(outcome="violation", signature="C28/design/solution-sets-differ",
                            detail="IterateILPGen %d (distinct %d), IterateSATGen %d (distinct %d) ; design=%s" % (len(I), len(set(I)), len(S), len(set(S)), dast.describe(ast)))
                return base
            blocking = check_blocking(w, blk.variables_per_sample())
            if blocking:
                base.update(outcome="violation", signature=blocking[0], detail=blocking[1] + " ; design=" + dast.describe(ast))
                return base
            base["outcome"] = "ok"
            return base
        finally:
            gurobi.uninstall(w)


def run_case(case):
    if case["mode"] == "direct":
        return run_direct(case)
    return run_design(case)


def shrink_candidates(case):
    if case["mode"] == "design":
        yield from common.shrink_case(case)
        return
    for i in range(len(case["requests"])):
        if len(case["requests"]) > 1:
            c = dict(case)
            c["requests"] = case["requests"][:i] + case["requests"][i + 1:]
            yield c
    for i in range(len(case["clauses"])):
        c = dict(case)
        c["clauses"] = case["clauses"][:i] + case["clauses"][i + 1:]
        used = set(abs(l) for cl in c["clauses"] for l in cl) | set(v for r in c["requests"] for v in r[2])
        if used >= set(range(1, case["n"] + 1)):
            yield c
    if case["support"] > 1:
        c = dict(case)
        c["support"] = case["support"] - 1
        yield c
