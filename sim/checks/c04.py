"""C04 - RandomGen returns only valid trial sequences (DESIGN.md section 6, C04)."""
import json

from .. import common, dast, gen, refsem, world as W

PROP = "C04"
LEVEL = "exploration"
RULE = ("seeded designs x scripted RNG (random / always-lo / always-hi / alternating scripts) x n in {1,3}; RandomGen, and "
        "IterateGen/UniformGen where they delegate to it; every returned sequence checked against the reference semantics; "
        "non-trivial = >=1 sequence returned after >=1 scripted draw; distinct = (design skeleton, rng script mode, strategy)")
ASSUMPTIONS = ["reference semantics (sim/refsem.py) reads the documentation correctly"]
BUDGET = {"quick": 300, "thorough": 900}
RUNS = {"quick": 4000, "thorough": 600000}


def gen_case(rs, tier):
    rng = W.stream(rs, "design")
    krng = W.stream(rs, "knobs")
    cfg = gen.swarm(krng, tier)
    ast = gen.gen_design(rng, cfg, tier)
    if ast is None:
        return None
    knobs = common.draw_knobs(krng)
    faults = []
    if krng.random() < 0.15:
        faults = [{"kind": "stdout.epipe", "at": W.stream(rs, "faults").randint(0, 300)}]
    return {"design": ast, "knobs": knobs, "n": krng.choice([1, 1, 3]),
            "strategy": krng.choice(["RandomGen", "RandomGen", "RandomGen", "IterateGen", "UniformGen"]), "faults": faults}


def run_case(case):
    ast = case["design"]
    m = refsem.elaborate(ast)
    if m.status == "rejected":
        return {"outcome": "skip", "reason": "ref-rejected"}
    if m.gaps:
        return {"outcome": "skip", "reason": "doc-gap:" + m.gaps[0]}
    with W.SimWorld(case["run_seed"], case["knobs"], case.get("faults")) as w:
        w.peer_calls_cap = 100
        blk, b, exc = common.construct(w, ast)
        if exc is not None:
            return common.result_base(w, outcome="skip", reason="constructor-refused:" + type(exc).__name__)
        if m.status == "ok" and blk.trials_per_sample() != m.T:
            return common.result_base(w, outcome="skip", reason="trial-count-differs(C16)")
        strat = case["strategy"]
        if strat != "RandomGen" and blk.complex_factors_or_constraints:
            strat = "RandomGen"     # IterateGen/UniformGen would pick a solver here: that is C01's business
        w.draw_cap = 30000
        try:
            with common.time_limit(5):
                res, exc = common.synth(w, blk, strat, case["n"])
        except common.InnerTimeout:
            return common.result_base(w, outcome="skip", reason="enumerator-too-slow")
        except W.HarnessCap:
            return common.result_base(w, outcome="skip", reason="rejection-cap")
        if exc is not None:
            return common.result_base(w, outcome="skip", reason="exception(C08):" + type(exc).__name__)
        base = common.result_base(w, key=str((dast.skeleton(ast), case["knobs"]["rng_mode"], strat)),
                                  nontrivial=bool(res) and w.rng.draws > 0,
                                  summary={"design": dast.describe(ast), "T": m.T, "returned": len(res), "draws": w.rng.draws,
                                           "rng_mode": case["knobs"]["rng_mode"], "strategy": strat})
        for si, e in enumerate(res):
            hidden = [k for k in e if not isinstance(k, str)]
            if hidden:
                base.update(outcome="violation", signature="C04/hidden-factor-exposed", detail="keys %r" % hidden)
                return base
            bad = refsem.valid(m, refsem.named_to_seq(m, e))
            if m.status in ("erroneous", "empty") and not bad:
                bad = ["design has no valid sequence (%s) but one was returned" % m.reason]
            if bad:
                base.update(outcome="violation", signature="C04/invalid/" + common.invalid_tail(m, bad),
                            detail="%s sequence %d: %s ; sequence=%s ; design=%s" % (strat, si, bad[:3], json.dumps(e, default=str)[:500], dast.describe(ast)))
                return base
        base["outcome"] = "ok"
        return base


def shrink_candidates(case):
    yield from common.shrink_case(case)
    if case["n"] > 1:
        c = dict(case)
        c["n"] = 1
        yield c
