"""C04 - RandomGen returns only valid trial sequences (DESIGN.md section 6, C04)."""
import json

from .. import common, dast, gen, refsem, world as W

PROP = "C04"
LEVEL = "exploration"
RULE = ("seeded designs x scripted RNG (random / always-lo / always-hi / alternating scripts) x n in {1,3}; RandomGen, and "
        "IterateGen/UniformGen where they delegate to it; every returned sequence checked against the reference semantics; "
        "non-trivial = >=1 sequence returned after >=1 scripted draw; distinct = (design skeleton, rng script mode, strategy)")
ASSUMPTIONS = ["reference semantics (sim/refsem.py) reads the documentation correctly"]
BUDGET = {"quick": 300, "thorough": 900}
RUNS = {"quick": 4000, "thorough": 600000}


def needle_case(rs, tier):
    """A long run of bad luck: hundreds of thousands of candidates, one or a few of them valid (a 9-level factor with all but
    one trial pinned, or a long minimum run), so that RandomGen rejects 10^5 or more candidates in a row before it can
    return.  Whatever the rejection loop does every n-th iteration (progress reports, bookkeeping) gets exercised, and
    what comes back must still be valid.  About three such cases per quick run and thirty per thorough run; one costs 10-60 s of one worker."""
    nrng = W.stream(rs, "needle-design")
    L = nrng.choice([8, 9, 9])
    names = ["v%d" % i for i in range(L)]
    A = {"id": "f0", "kind": "basic", "name": "A", "levels": [[n, 1] for n in names]}
    order = names[:]
    nrng.shuffle(order)
    cons = []
    if nrng.random() < 0.7:
        free = nrng.choice([1, 2])
        for i in range(L - free):
            cons.append({"id": "p%d" % i, "kind": "pin", "index": i, "target": ["f0", order[i]], "spelling": "tuple"})
    else:
        B = {"id": "f1", "kind": "basic", "name": "B", "levels": [["b0", 1], ["b1", 1], ["b2", 1]]}
        A = {"id": "f0", "kind": "basic", "name": "A", "levels": [[n, 1] for n in names[:4]]}
        ast = {"factors": [A, B], "block": {"kind": "cross", "design": ["f0", "f1"], "crossing": ["f0", "f1"], "rcc": True,
                                            "constraints": [{"id": "r0", "kind": "atleast", "k": 4, "target": ["f1"], "spelling": "factor"}]}}
        return {"design": ast, "knobs": dict(common.draw_knobs(W.stream(rs, "knobs")), rng_mode="random"), "n": 1, "strategy": "RandomGen",
                "faults": [], "needle": True, "timeout": 170}
    ast = {"factors": [A], "block": {"kind": "cross", "design": ["f0"], "crossing": ["f0"], "constraints": cons, "rcc": True}}
    return {"design": ast, "knobs": dict(common.draw_knobs(W.stream(rs, "knobs")), rng_mode="random"), "n": 1, "strategy": "RandomGen",
            "faults": [], "needle": True, "timeout": 170}


def gen_case(rs, tier):
    if W.stream(rs, "needle").random() < (0.0015 if tier == "thorough" else 0.0012):
        return needle_case(rs, tier)
    rng = W.stream(rs, "design")
    krng = W.stream(rs, "knobs")
    cfg = gen.swarm(krng, tier)
    ast = gen.gen_design(rng, cfg, tier)
    if ast is None:
        return None
    knobs = common.draw_knobs(krng)
    faults = []
    if krng.random() < 0.15:
        faults = [{"kind": "stdout.epipe", "at": W.stream(rs, "faults").randint(0, 300)}]
    return {"design": ast, "knobs": knobs, "n": krng.choice([1, 1, 3]),
            "strategy": krng.choice(["RandomGen", "RandomGen", "RandomGen", "IterateGen", "UniformGen"]), "faults": faults}


def run_case(case):
    ast = case["design"]
    m = refsem.elaborate(ast)
    if m.status == "rejected":
        return {"outcome": "skip", "reason": "ref-rejected"}
    if m.gaps:
        return {"outcome": "skip", "reason": "doc-gap:" + m.gaps[0]}
    with W.SimWorld(case["run_seed"], case["knobs"], case.get("faults")) as w:
        w.peer_calls_cap = 100
        blk, b, exc = common.construct(w, ast)
        if exc is not None:
            return common.result_base(w, outcome="skip", reason="constructor-refused:" + type(exc).__name__)
        t_differs = m.status == "ok" and blk.trials_per_sample() != m.T
        strat = case["strategy"]
        if strat != "RandomGen" and blk.complex_factors_or_constraints:
            strat = "RandomGen"     # IterateGen/UniformGen would pick a solver here: that is C01's business
        w.draw_cap = 30000 if not case.get("needle") else 40_000_000
        w.log_cap = 2000 if case.get("needle") else w.log_cap
        if case.get("needle"):
            w.rng.track = False       # a ledger over a million draws is a fraction with millions of digits
        try:
            with common.time_limit(5 if not case.get("needle") else 150):
                res, exc = common.synth(w, blk, strat, case["n"])
        except common.InnerTimeout:
            return common.result_base(w, outcome="skip", reason="enumerator-too-slow")
        except W.HarnessCap:
            return common.result_base(w, outcome="skip", reason="rejection-cap")
        if exc is not None:
            return common.result_base(w, outcome="skip", reason="exception(C08):" + type(exc).__name__)
        base = common.result_base(w, key=str((dast.skeleton(ast), case["knobs"]["rng_mode"], strat)),
                                  nontrivial=bool(res) and w.rng.draws > 0,
                                  summary={"design": dast.describe(ast), "T": m.T, "returned": len(res), "draws": w.rng.draws,
                                           "rng_mode": case["knobs"]["rng_mode"], "strategy": strat})
        if t_differs:
            if res:
                base.update(outcome="violation", signature="C04/invalid/trial-count",
                            detail="%s returned %d sequence(s) of a block that reports %d trials, documented count %d ; design=%s" % (
                                strat, len(res), blk.trials_per_sample(), m.T, dast.describe(ast)))
                return base
            base.update(outcome="skip", reason="trial-count-differs(C16)")
            return base
        for si, e in enumerate(res):
            hidden = [k for k in e if not isinstance(k, str)]
            if hidden:
                base.update(outcome="violation", signature="C04/hidden-factor-exposed", detail="keys %r" % hidden)
                return base
            bad = refsem.valid(m, refsem.named_to_seq(m, e))
            if m.status in ("erroneous", "empty") and not bad:
                bad = ["design has no valid sequence (%s) but one was returned" % m.reason]
            if bad:
                base.update(outcome="violation", signature="C04/invalid/" + common.invalid_tail(m, bad),
                            detail="%s sequence %d: %s ; sequence=%s ; design=%s" % (strat, si, bad[:3], json.dumps(e, default=str)[:500], dast.describe(ast)))
                return base
        base["outcome"] = "ok"
        return base


def shrink_candidates(case):
    yield from common.shrink_case(case)
    if case["n"] > 1:
        c = dict(case)
        c["n"] = 1
        yield c
