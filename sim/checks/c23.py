"""C23 - weighted levels behave as documented (DESIGN.md C23, sampler-visible form): weight-vs-copies metamorphic twin."""
import json
from collections import Counter

from .. import common, dast, gen, refsem, world as W

PROP = "C23"
LEVEL = "exploration"
RULE = ("seeded designs with weighted levels of non-derived factors (crossed, uncrossed, referenced by derived-factor tables and by "
        "constraints on other levels); the twin design replaces each level of weight w by w separately named copies (tables "
        "rewritten); both exhausted with IterateSATGen in one world; oracle: after renaming the copies back, equal SETS when the "
        "weighted factor is in the crossing (occurrences are not distinct solutions) and equal MULTISETS when it is in no crossing "
        "(copies are distinct solutions); no hidden factor in any output; non-trivial = >=2 solutions and >=1 weighted level; "
        "distinct = (design skeleton)")
ASSUMPTIONS = ["constraints of the generated designs never target a weighted level itself (a run over different copies has no twin spelling)"]
BUDGET = {"quick": 300, "thorough": 900}
RUNS = {"quick": 800, "thorough": 60000}
THOROUGH_RUNS = 2000        # the thorough tier of this (expensive) check: a fixed range sized to stay within ~15 minutes


def expand(ast):
    """Twin AST: every weighted level l*w of a basic factor becomes l#1..l#w (weight 1); derived tables are rewritten."""
    a = dast.clone(ast)
    copies = {}
    for f in a["factors"]:
        if f["kind"] != "basic":
            continue
        new = []
        for n, w in f["levels"]:
            if w > 1:
                names = ["%s#%d" % (n, i + 1) for i in range(w)]
                copies[(f["id"], n)] = names
                new.extend([[x, 1] for x in names])
            else:
                new.append([n, 1])
        f["levels"] = new
    for f in a["factors"]:
        if f["kind"] != "derived":
            continue
        width = f["window"]["width"]
        for l in f["levels"]:
            if "table" not in l:
                continue
            rows = []
            for row in l["table"]:
                opts = [[]]
                for ai, fid in enumerate(f["args"]):
                    cell = row[ai]
                    if width == 1:
                        alts = copies.get((fid, cell), [cell])
                        opts = [o + [x] for o in opts for x in alts]
                    else:
                        cell_opts = [[]]
                        for v in cell:
                            alts = copies.get((fid, v), [v])
                            cell_opts = [c + [x] for c in cell_opts for x in alts]
                        opts = [o + [c] for o in opts for c in cell_opts]
                rows.extend(opts)
            l["table"] = rows
    return a, copies


def gen_case(rs, tier):
    rng = W.stream(rs, "design")
    krng = W.stream(rs, "knobs")
    cfg = gen.swarm(krng, tier)
    cfg["weights"] = True
    cfg["bad_tables"] = False
    cfg["kinds"] = [k for k in cfg["kinds"] if k not in ("latinsquare", "sequential")] or ["atmost"]
    cfg["n_constraints"] = min(cfg["n_constraints"], 2)
    cfg["max_cross"] = 5
    ast = gen.gen_cross_design(rng, cfg, tier)
    if ast is None:
        return None
    weighted = {(f["id"], n) for f in ast["factors"] if f["kind"] == "basic" for n, w in f["levels"] if w > 1}
    if not weighted:
        # the generator put no weight anywhere: give one level of one basic factor weight 2 or 3
        f = rng.choice([f for f in ast["factors"] if f["kind"] == "basic"])
        lv = rng.choice(f["levels"])
        lv[1] = rng.choice([2, 2, 3])
        weighted = {(f["id"], lv[0])}
    wf = {fid for fid, _ in weighted}
    # derived-level weights are a different mechanism: keep them at 1 here
    for f in ast["factors"]:
        if f["kind"] == "derived":
            for l in f["levels"]:
                l["weight"] = 1
    keep = []
    for c in ast["block"]["constraints"]:
        t = c.get("target")
        if t and t[0] in wf and (len(t) == 1 or (t[0], t[1]) in weighted):
            continue
        keep.append(c)
    ast["block"]["constraints"] = keep
    knobs = common.draw_knobs(krng, transports=("lib",))
    return {"design": ast, "knobs": knobs, "tier": tier}


def rename_back(e, copies_by_name):
    out = {}
    for k, v in e.items():
        out[str(k)] = tuple(copies_by_name.get((str(k), x), x) for x in v)
    return tuple(sorted(out.items()))


def run_case(case):
    ast = case["design"]
    tier = case.get("tier", "quick")
    cap = 60 if tier == "quick" else 2000
    twin, copies = expand(ast)
    fb = dast.factors_by_id(ast)
    back = {}
    for (fid, n), names in copies.items():
        for x in names:
            back[(fb[fid]["name"], x)] = n
    crossing = set(ast["block"]["crossing"])
    wfactors = sorted(set(fid for fid, _ in copies))
    crossed = [fid in crossing for fid in wfactors]

    def family(sig):
        # designs in a region with a recorded encoding defect carry that region's tag (common.family_tags)
        return common.with_family(sig, refsem.elaborate(ast))

    with W.SimWorld(case["run_seed"], case["knobs"]) as w:
        b1, _, e1 = common.construct(w, ast)
        b2, _, e2 = common.construct(w, twin)
        base = common.result_base(w, key=dast.skeleton(ast), summary={"design": dast.describe(ast), "twin": dast.describe(twin)[:200],
                                                                     "weighted_factors_crossed": crossed})
        if (e1 is None) != (e2 is None):
            base.update(outcome="violation", nontrivial=True,
                        signature="C23/constructor-outcome-differs/%s/%s@%s" % (("weighted-refused", type(e1).__name__, common.innermost_frame_info(e1)[0]) if e1 is not None else ("copies-refused", type(e2).__name__, common.innermost_frame_info(e2)[0])),
                        detail="weighted design: %s ; copy-expanded twin: %s ; design=%s" % (repr(e1)[:160], repr(e2)[:160], dast.describe(ast)))
            return base
        if e1 is not None:
            base.update(outcome="skip", reason="both-refuse")
            return base
        try:
            with common.time_limit(15):
                w.peer_calls_cap = cap + 30
                r1, x1 = common.synth(w, b1, "IterateSATGen", cap + 1)
                w.peer_calls_cap = w.counters.get("peer.solve", 0) + cap * 8 + 30
                r2, x2 = common.synth(w, b2, "IterateSATGen", cap * 8 + 1)
        except (common.InnerTimeout, W.HarnessCap):
            base.update(outcome="skip", reason="cap")
            return base
        if x1 is not None or x2 is not None:
            if (x1 is None) != (x2 is None):
                x = x1 if x1 is not None else x2
                sig = "C23/synthesis-outcome-differs/%s-raises/%s@%s" % ("weighted" if x1 is not None else "copies", type(x).__name__,
                                                                         common.innermost_frame_info(x)[0])
                base.update(outcome="violation", signature=family(sig),
                            detail="weighted %r, twin %r ; design=%s" % (type(x1).__name__ if x1 else None, type(x2).__name__ if x2 else None, dast.describe(ast)))
                return base
            base.update(outcome="skip", reason="both-raise")
            return base
        if len(r1) > cap or len(r2) > cap * 8:
            base.update(outcome="skip", reason="too-big")
            return base
        base = common.result_base(w, key=dast.skeleton(ast), nontrivial=len(r1) >= 2,
                                  summary={"design": dast.describe(ast), "weighted_solutions": len(r1), "twin_solutions": len(r2),
                                           "weighted_factors_crossed": crossed})
        for e in r1:
            if any(not isinstance(k, str) for k in e):
                base.update(outcome="violation", signature="C23/hidden-factor-exposed", detail="keys %r" % list(e))
                return base
        W1 = Counter(rename_back(e, {}) for e in r1)
        T2 = Counter(rename_back(e, back) for e in r2)
        allc = all(crossed)
        nonec = not any(crossed)
        if T2.keys() != W1.keys():
            only_w = sorted(set(W1) - set(T2))
            only_t = sorted(set(T2) - set(W1))
            base.update(outcome="violation",
                        signature=family("C23/solution-sets-differ/%s/%s" % ("crossed" if allc else ("uncrossed" if nonec else "mixed"),
                                                                              "weighted-more" if only_w and not only_t else ("copies-more" if only_t and not only_w else "both"))),
                        detail="weighted design %d distinct, twin %d distinct after renaming; only weighted: %s ; only twin: %s ; design=%s" % (
                            len(W1), len(T2), json.dumps(dict(only_w[0]))[:250] if only_w else None, json.dumps(dict(only_t[0]))[:250] if only_t else None, dast.describe(ast)))
            return base
        if allc and W1 and max(W1.values()) > 1:
            k0 = [k for k, v in W1.items() if v > 1][0]
            base.update(outcome="violation", signature="C23/crossed-weight-occurrences-counted-as-distinct",
                        detail="%s returned %d times ; design=%s" % (json.dumps(dict(k0))[:250], W1[k0], dast.describe(ast)))
            return base
        if nonec and W1 != T2:
            k0 = [k for k in W1 if W1[k] != T2[k]][0]
            base.update(outcome="violation", signature=family("C23/uncrossed-weight-multiplicity"),
                        detail="%s: weighted design returns it %d times, copy-expanded twin %d times ; design=%s" % (json.dumps(dict(k0))[:250], W1[k0], T2[k0], dast.describe(ast)))
            return base
        base["outcome"] = "ok"
        return base


def shrink_candidates(case):
    for c in common.shrink_case(case):
        a = c["design"]
        if any(w > 1 for f in a["factors"] if f["kind"] == "basic" for _, w in f["levels"]):
            yield c
