"""C03 - each trial sequence is exactly one model of the compiled formula (DESIGN.md C03), through an ideal-uniform
('cycle') sampler peer: one full cycle visits every model of the clauses the library handed over exactly once."""
import json
from collections import Counter

from .. import common, dast, gen, world as W

PROP = "C03"
LEVEL = "exploration"
RULE = ("seeded designs; the pycmsgen fake enumerates all models of the clauses it received (bounded) and returns the j-th for "
        "the j-th scripted seed, the pyunigen fake cycles over projections onto the sampling set it was given; "
        "synthesize_trials(block, M, CMSGen/UniGen) for one full cycle; oracle: the multiset of returned sequences equals the "
        "multiset IterateSATGen returns when exhausted in the same world (one blocking clause per trial-sequence assignment), "
        "i.e. no trial-sequence assignment has two models (free auxiliary variable) or none; non-trivial = >=2 models; "
        "distinct = (design skeleton, sampler)")
ASSUMPTIONS = ["bounded model enumeration inside the fake (real pycryptosat with blocking clauses over all variables)",
               "there is no fault or schedule on which the truth of C03 depends: what is sampled is the design, the transport and the model order"]
BUDGET = {"quick": 300, "thorough": 900}
RUNS = {"quick": 2000, "thorough": 120000}
THOROUGH_RUNS = 5000        # the thorough tier of this (expensive) check: a fixed range sized to stay within ~15 minutes
MODEL_CAP = {"quick": 150, "thorough": 5000}


def gen_case(rs, tier):
    rng = W.stream(rs, "design")
    krng = W.stream(rs, "knobs")
    cfg = gen.swarm(krng, tier)
    ast = gen.gen_design(rng, cfg, tier)
    if ast is None:
        return None
    knobs = common.draw_knobs(krng, transports=("lib",))
    knobs["sampler"] = "cycle"
    knobs["np_mode"] = "counter"
    case = {"design": ast, "knobs": knobs, "tier": tier, "sampler": krng.choice(["CMSGen", "CMSGen", "UniGen"])}
    hrng = W.stream(rs, "history")
    if hrng.random() < 0.3:
        # the block has a past: other strategies were used on the same object first, one of them possibly failing
        # (IterateILPGen without gurobipy raises; with the fake Gurobi peer it works); the formula the samplers get
        # afterwards must still have one model per sequence
        ops = ["ilp-missing", "ilp-missing", "ilp-fake", "RandomGen", "IterateGen", "UniformGen", "print"]
        case["history"] = [hrng.choice(ops) for _ in range(hrng.choice([1, 1, 2, 3]))]
    return case


def key(e):
    return tuple(sorted((str(k), tuple(v)) for k, v in e.items()))


def run_case(case):
    ast = case["design"]
    tier = case.get("tier", "quick")
    cap = MODEL_CAP[tier]
    with W.SimWorld(case["run_seed"], case["knobs"]) as w:
        w.model_cap = cap
        blk, b, exc = common.construct(w, ast)
        if exc is not None:
            return common.result_base(w, outcome="skip", reason="constructor-refused:" + type(exc).__name__)
        for op in case.get("history") or []:
            try:
                with common.time_limit(4):
                    w.peer_calls_cap = w.counters.get("peer.solve", 0) + 30
                    w.draw_cap = w.rng.draws + 20000
                    if op == "ilp-missing":
                        _, e_ = common.synth(w, blk, "IterateILPGen", 1)
                    elif op == "ilp-fake":
                        from .. import gurobi
                        gurobi.install(w)
                        try:
                            _, e_ = common.synth(w, blk, "IterateILPGen", 2)
                        finally:
                            gurobi.uninstall(w)
                    elif op == "print":
                        r_, e_ = common.synth(w, blk, "IterateSATGen", 1)
                        if r_:
                            import sweetpea as sp
                            sp.print_experiments(blk, r_)
                    else:
                        _, e_ = common.synth(w, blk, op, 1)
                w.count("history-op:" + op)
            except (common.InnerTimeout, W.HarnessCap):
                pass
            except Exception:   # noqa
                pass
        try:
            with common.time_limit(12):
                w.peer_calls_cap = w.counters.get("peer.solve", 0) + cap + 50
                n_inputs = len(w.peer_inputs)
                sat, exc = common.synth(w, blk, "IterateSATGen", cap + 1)
                if exc is not None:
                    return common.result_base(w, outcome="skip", reason="exception(C08):" + type(exc).__name__)
                # --- spot check, also for designs too big to cycle through: every sequence IterateSATGen returned is one
                # assignment of the trial-sequence variables; with those fixed, the complete formula (exactly the clauses the
                # library handed to its solver in the first round) must have exactly one model
                spot = spot_check(w, blk, n_inputs, sat)
                if spot is not None:
                    sig = "C03/IterateSATGen/" + spot[0]
                    try:
                        from .. import refsem
                        sig = common.with_family(sig, refsem.elaborate(ast))
                    except Exception:   # noqa
                        pass
                    return common.result_base(w, outcome="violation", signature=sig, nontrivial=True, key=str((dast.skeleton(ast), "spot")),
                                              detail=spot[1] + " ; design=" + dast.describe(ast))
                if len(sat) > cap:
                    return common.result_base(w, outcome="skip", reason="too-big", nontrivial=False)
                w.peer_calls_cap = None
                # learn M = number of (full / projected) models the fake sees, with a one-sample call
                first, exc = common.synth(w, blk, case["sampler"], 1)
                if exc is not None:
                    return common.result_base(w, outcome="skip", reason="exception(C08):" + type(exc).__name__)
                sizes = [len(v[1]) for v in w_model_cache_values(w)]
                M = max(sizes) if sizes else 0
                if M == 0:
                    cyc = []
                else:
                    if case["sampler"] == "UniGen":
                        w.unigen_cursor = 0
                        w.unigen_samples = []
                    else:
                        w.nprng.counter = 0
                    cyc, exc = common.synth(w, blk, case["sampler"], M)
                    if exc is not None:
                        return common.result_base(w, outcome="skip", reason="exception(C08):" + type(exc).__name__)
        except common.InnerTimeout:
            return common.result_base(w, outcome="skip", reason="timeout")
        except W.HarnessCap:
            return common.result_base(w, outcome="skip", reason="too-big")
        S = Counter(key(e) for e in sat)
        C = Counter(key(e) for e in cyc)
        base = common.result_base(w, key=str((dast.skeleton(ast), case["sampler"])), nontrivial=M >= 2,
                                  summary={"design": dast.describe(ast), "sampler": case["sampler"], "models": M,
                                           "iterate_sat": len(sat), "cycle_returned": len(cyc)})
        if S != C:
            dup = {k: (C[k], S.get(k, 0)) for k in C if C[k] != S.get(k, 0)}
            miss = [k for k in S if k not in C]
            if dup:
                k0 = sorted(dup, key=repr)[0]
                more = dup[k0][0] > dup[k0][1]
                sig = "C03/%s/%s" % (case["sampler"], "sequence-has-several-models" if more else "sequence-has-fewer-models")
                detail = "%s: one full cycle over %d models returned %s %d times; IterateSATGen (one per trial-sequence assignment) returns it %d times" % (
                    case["sampler"], M, json.dumps(dict(k0))[:300], dup[k0][0], dup[k0][1])
            else:
                sig = "C03/%s/sequence-without-model" % case["sampler"]
                detail = "%s never returned %s in a full cycle over %d models" % (case["sampler"], json.dumps(dict(miss[0]))[:300], M)
            tags = []
            try:
                from .. import refsem
                m = refsem.elaborate(ast)
                sig = common.with_family(sig, m)
            except Exception:
                pass
            base.update(outcome="violation", signature=sig, detail=detail + " ; design=" + dast.describe(ast))
            return base
        base["outcome"] = "ok"
        return base


def spot_check(w, blk, n_inputs, sat, max_seqs=6):
    """(class, detail) if some returned sequence has several models of the complete formula, else None."""
    import pycryptosat
    rounds = w.peer_inputs[n_inputs:]
    models = w.peer_models[-len(rounds):] if rounds else []
    if not rounds or not sat:
        return None
    clauses = rounds[0][1]
    try:
        support = blk.variables_per_sample()
    except Exception:   # noqa
        return None
    nvars = max([abs(l) for c in clauses for l in c] + [support])
    checked = 0
    for r, model in enumerate(models):
        if model is None or checked >= max_seqs or r >= len(sat):
            break
        units = [[v if (v < len(model) and model[v]) else -v] for v in range(1, support + 1)]
        s = pycryptosat.Solver(confl_limit=200000)
        for c in clauses:
            s.add_clause(c)
        for u in units:
            s.add_clause(u)
        ok, sol = s.solve()
        if ok is None:
            return None
        checked += 1
        if not ok:
            continue        # cannot happen for a model the peer itself produced; nothing to say
        sol = list(sol) + [False] * (nvars + 1 - len(sol))
        s.add_clause([(-v if sol[v] else v) for v in range(1, nvars + 1)])
        ok2, sol2 = s.solve()
        if ok2:
            sol2 = list(sol2) + [False] * (nvars + 1 - len(sol2))
            free = [v for v in range(support + 1, nvars + 1) if sol[v] != sol2[v]]
            w.count("spot-checked", checked)
            return ("sequence-has-several-models/spot", "sequence %d returned by IterateSATGen (%s) has at least two models of the complete formula: with the %d trial-sequence variables fixed, auxiliary variable(s) %s can still take both values" % (
                r, json.dumps(sat[r], default=str)[:200], support, free[:6]))
    w.count("spot-checked", checked)
    return None


def w_model_cache_values(w):
    # the cache lives in the closure installed by samplers.install; sizes are also visible through the log of cycle samples
    fn = w.model_cache
    cells = fn.__closure__ or ()
    for c in cells:
        v = c.cell_contents
        if isinstance(v, dict):
            return list(v.values())
    return []


def shrink_candidates(case):
    h = case.get("history") or []
    for i in range(len(h)):
        c = dict(case)
        c["history"] = h[:i] + h[i + 1:]
        yield c
    yield from common.shrink_case(case)
