"""C22 - continuous factors respect their constraints, inputs and windows (DESIGN.md C22)."""
import json
import math

from .. import common, contin, dast, gen, refsem, world as W

PROP = "C22"
LEVEL = "exploration"
RULE = ("seeded designs with 1-3 continuous factors (built-in distributions drawn through the scripted PRNG, table-driven custom "
        "functions of same-trial discrete levels / continuous values / ContinuousFactorWindow dicts, cumulative on/off, 0-1 "
        "ContinuousConstraint); the draw script makes the first r whole-sequence attempts violate the constraint and attempt r+1 "
        "satisfy it; oracle: every continuous factor has T values, the predicate holds on the returned values at every trial, "
        "every dependent value equals the function recomputed from the returned row / preceding rows (NaN where the window is "
        "undefined or skipped), cumulative sums restart per sequence, exactly r+1 attempts are made; non-trivial = >=1 sequence "
        "with >=1 dependent or constrained factor; distinct = (continuous skeleton, r)")
ASSUMPTIONS = ["custom functions are deterministic given their inputs (plus scripted noise for non-dependent ones)",
               "built-in distributions are driven through the scripted PRNG: script value u in [0,1) maps monotonically to the sample"]
BUDGET = {"quick": 300, "thorough": 900}
RUNS = {"quick": 3000, "thorough": 380000}


def gen_case(rs, tier):
    rng = W.stream(rs, "design")
    krng = W.stream(rs, "knobs")
    cfg = gen.swarm(krng, tier)
    cfg["kinds"] = ["atmost", "exclude", "mintrials"]
    cfg["n_constraints"] = min(cfg["n_constraints"], 1)
    cfg["derived"] = min(cfg["derived"], 1)
    ast = gen.gen_cross_design(rng, cfg, tier)
    if ast is None:
        return None
    gen.add_continuous(rng, ast, nmax=3, with_constraint=False)
    conts = [f for f in ast["factors"] if f["kind"] == "continuous"]
    # at most one constraint, on a directly scripted factor so that the harness controls which attempt succeeds
    scripted = [f for f in conts if f["dist"]["kind"] == "uniform"]
    r = 0
    if scripted and krng.random() < 0.6:
        f = krng.choice(scripted)
        ast["block"]["constraints"].append({"id": "cc0", "kind": "ccons", "factors": [f["id"]],
                                            "pred": {"op": "sum_lt", "c": f["dist"]["hi"] * 0.5}})
        r = krng.choice([0, 0, 1, 2, 3])
        if W.stream(rs, "two-bounds").random() < 0.4:
            # a lower bound on the same factor written as a constraint of its own (same factor list, another predicate);
            # every scripted value satisfies it, so it never costs an attempt
            lower = {"id": "cc1", "kind": "ccons", "factors": [f["id"]], "pred": {"op": "sum_gt", "c": f["dist"]["hi"] * 0.05}}
            ast["block"]["constraints"].insert(len(ast["block"]["constraints"]) - W.stream(rs, "two-bounds-order").choice([0, 0, 1]), lower)
    knobs = common.draw_knobs(krng)
    return {"design": ast, "knobs": knobs, "r": r, "bad_trial": krng.randint(0, 7), "n": krng.choice([1, 2]),
            "strategy": krng.choice(["IterateSATGen", "RandomGen"]),
            "second_call": W.stream(rs, "second").choice([0, 0, 1, 2])}


def run_case(case):
    ast = case["design"]
    fb = dast.factors_by_id(ast)
    conts = [f for f in ast["factors"] if f["kind"] == "continuous"]
    ccons = [c for c in ast["block"]["constraints"] if c["kind"] == "ccons"]
    with W.SimWorld(case["run_seed"], case["knobs"]) as w:
        from .. import build
        try:
            bld = build.Builder(ast, continuous_env=w)
            blk = bld.block(ast["block"])
        except Exception as e:   # noqa
            return common.result_base(w, outcome="skip", reason="constructor-refused:" + type(e).__name__)
        T = blk.trials_per_sample()
        # --- the luck script: for the constrained factor, the first r attempts of every sequence fail at bad_trial
        cfid = ccons[0]["factors"][0] if ccons else None
        state = {"attempt": 0, "trial": 0, "attempts_per_seq": []}
        order = [f["id"] for f in conts]
        orig_sample = getattr(blk, "_sample_continuous", None)
        state["hooked"] = orig_sample is not None

        def sample_hook(*a, **k):
            # one call = one whole-sequence attempt; whatever arguments the library passes are handed on unchanged
            state["attempt"] += 1
            state["uniform_calls"] = 0
            return orig_sample(*a, **k)
        if orig_sample is not None:
            blk._sample_continuous = sample_hook

        def script(site, params):
            u = w.rng.rng.random()
            if site == "uniform" and cfid is not None and fb[cfid]["dist"]["kind"] == "uniform" and params == (fb[cfid]["dist"]["lo"], fb[cfid]["dist"]["hi"]):
                # draws for the constrained factor come in trial order within one attempt
                t = state["uniform_calls"]
                state["uniform_calls"] += 1
                local_attempt = (state["attempt"] - 1) % (case["r"] + 1)
                if local_attempt < case["r"] and t == min(case["bad_trial"], T - 1):
                    return 0.75 + 0.2 * u      # violates x < hi/2
                return 0.1 + 0.35 * u          # satisfies it (and a lower bound at hi/20)
            return u
        w.rng.float_script = script
        w.draw_cap = 50000
        w.peer_calls_cap = 100
        try:
            with common.time_limit(6):
                res, exc = common.synth(w, blk, case["strategy"], case["n"])
        except (common.InnerTimeout, W.HarnessCap):
            return common.result_base(w, outcome="skip", reason="cap")
        if exc is not None:
            return common.result_base(w, outcome="skip", reason="exception:" + type(exc).__name__)
        # several uniform factors with identical parameters would confuse the script's trial counter
        same_params = [f for f in conts if f["dist"]["kind"] == "uniform" and cfid and f["id"] != cfid and
                       (f["dist"]["lo"], f["dist"]["hi"]) == (fb[cfid]["dist"]["lo"], fb[cfid]["dist"]["hi"])]
        def validate(res_):
            viols = []
            dependent = 0
            for si, e in enumerate(res_):
                seq_by_id = {}
                for f in conts:
                    col = e.get(f["name"])
                    if col is None:
                        viols.append(("C22/missing-continuous-column", "sequence %d lacks %s" % (si, f["name"])))
                        continue
                    if len(col) != T:
                        viols.append(("C22/continuous-column-length", "sequence %d: %s has %d values for %d trials" % (si, f["name"], len(col), T)))
                    seq_by_id[f["id"]] = list(col)
                for f in ast["factors"]:
                    if f["kind"] == "basic" and f["name"] in e:
                        seq_by_id[f["id"]] = list(e[f["name"]])
                if viols:
                    break
                for c in ccons:
                    for t in range(T):
                        vals = [seq_by_id[x][t] for x in c["factors"]]
                        if not contin.eval_pred(c["pred"], vals):
                            viols.append(("C22/constraint-violated-in-returned-values", "sequence %d trial %d: %r does not satisfy %r" % (si, t, vals, c["pred"])))
                            break
                for f in conts:
                    d = f["dist"]
                    if d["kind"] != "custom" or not d["deps"] or d.get("noise"):
                        continue
                    if any(("factor" in dep and dep["factor"] not in seq_by_id) for dep in d["deps"]):
                        continue
                    dependent += 1
                    want = contin.expected_dependent(f, seq_by_id, None, T)
                    got = seq_by_id[f["id"]]
                    for t in range(min(T, len(got))):
                        if not contin.same(got[t], want[t]):
                            has_win = any("window" in dep for dep in d["deps"])
                            tag = "window" if has_win else ("cumulative" if d.get("cumulative") else "same-trial")
                            viols.append(("C22/dependent-value-mismatch/" + tag,
                                          "sequence %d factor %s trial %d: returned %r, recomputed from the returned rows %r (dist=%s)" % (si, f["name"], t, got[t], want[t], json.dumps(d)[:300])))
                            break
            return viols, dependent

        viols, dependent = validate(res)
        if not viols and case.get("second_call") and res:
            # history: a later synthesize_trials call on the same block must not change what an earlier call returned
            # (the caller still holds those dicts); the oracle is simply applied to the first result once more
            try:
                with common.time_limit(6):
                    w.draw_cap = w.rng.draws + 50000
                    w.peer_calls_cap = w.counters.get("peer.solve", 0) + 100
                    common.synth(w, blk, case["strategy"], case["second_call"])
                w.count("second-call")
                viols2, _ = validate(res)
                viols = [(sg + "/after-later-call", dt + " (the first call's result, re-checked after a second call on the same block)") for sg, dt in viols2]
            except (common.InnerTimeout, W.HarnessCap):
                pass
        attempts = state["attempt"]
        if ccons and not same_params and not viols and res and state["hooked"]:
            # bounded liveness only: the script makes exactly r attempts per sequence fail, so r+1 suffice; the statement
            # does not say how attempts are organised, so only a runaway resampling loop is a violation
            want_attempts = (case["r"] + 1) * len(res)
            if attempts > 8 * want_attempts + 8:
                viols.append(("C22/LIVENESS/attempt-count", "%d whole-sequence attempts for %d sequences with %d scripted failures each (%d suffice)" % (attempts, len(res), case["r"], want_attempts)))
        base = common.result_base(w, key=str((tuple((f["dist"]["kind"], len(f["dist"].get("deps", [])), bool(f["dist"].get("cumulative"))) for f in conts), case["r"])),
                                  nontrivial=bool(res) and (dependent > 0 or bool(ccons)),
                                  summary={"design": dast.describe(ast), "continuous": [f["dist"] for f in conts][:3], "r": case["r"],
                                           "attempts": attempts, "returned": len(res), "T": T})
        base["counters"]["resample_attempts"] = attempts
        viol = common.pick_violation(PROP, viols)
        if viol:
            base.update(outcome="violation", signature=viol[0], detail=viol[1] + " ; design=" + dast.describe(ast))
            return base
        base["outcome"] = "ok"
        return base


def shrink_candidates(case):
    yield from common.shrink_case(case)
    if case["r"] > 0:
        c = dict(case)
        c["r"] = 0
        yield c
    if case["n"] > 1:
        c = dict(case)
        c["n"] = 1
        yield c
    ast = case["design"]
    conts = [f for f in ast["factors"] if f["kind"] == "continuous"]
    for f in conts:
        d = f["dist"]
        if d["kind"] == "custom" and len(d["deps"]) > 1:
            for i in range(len(d["deps"])):
                a = dast.clone(ast)
                for g in a["factors"]:
                    if g["id"] == f["id"]:
                        del g["dist"]["deps"][i]
                c = dict(case)
                c["design"] = a
                yield c
