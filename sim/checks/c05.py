"""C05 - RandomGen samples uniformly: one candidate per valid sequence, candidates equally likely (DESIGN.md C05)."""
import json
from collections import Counter, defaultdict

from .. import common, dast, refsem, world as W
from . import c06

PROP = "C05"
LEVEL = "exploration"
RULE = ("same exhausted RandomGen runs as C06; the enumerator is wrapped from outside to record, per attempt, the candidate key, "
        "the exact probability (product of 1/range over the integer draws the library made for it) and accepted/rejected; "
        "oracle: accepted candidates <-> V is a bijection up to B.8 multiplicities, and every candidate key has the same exact "
        "probability; non-trivial = >=2 candidate keys; distinct = (design skeleton, enumerator shape: rounds/leftover/preamble)")
ASSUMPTIONS = ["reference semantics (sim/refsem.py) reads the documentation correctly",
               "probabilities are computed from the ranges the library passed to randrange, assuming an ideal uniform randrange"]
BUDGET = {"quick": 300, "thorough": 900}
RUNS = {"quick": 2500, "thorough": 100000}


def gen_case(rs, tier):
    return c06.gen_case(rs, tier, "C05")


def run_case(case):
    early, ctx = c06.run_exhaust(case)
    if early is not None:
        return early
    m, V, res, tr, w, ast = ctx["m"], ctx["V"], ctx["res"], ctx["tr"], ctx["w"], ctx["ast"]
    if not tr.instrumented:
        # C05 is about the candidates themselves; without the per-attempt instrumentation nothing can be judged
        return {"outcome": "skip", "reason": "instrumentation-missing:UCSolutionEnumerator candidate hooks"}
    base = c06.base_of(ctx, case)
    keys = {}
    for a in tr.attempts:
        keys.setdefault(a["key"], a)
    base["nontrivial"] = len(keys) >= 2
    base["key"] = str((dast.skeleton(ast), tr.rounds, tr.leftover > 0, tr.enumerator._preamble_size > 0 if tr.enumerator else None))
    viols = []
    # (i) bijection: accepted candidates <-> valid sequences (with B.8 multiplicities)
    L = common.lib_multiset(m, res)
    accepted = sum(1 for a in keys.values() if a["accepted"])
    if accepted != len(res):
        viols.append(("C05/accepted!=returned", "%d accepted candidate keys but %d sequences returned" % (accepted, len(res))))
    over = {k: v for k, v in L.items() if v > V.get(k, 0)}
    if over:
        k0 = sorted(over, key=repr)[0]
        viols.append(("C05/two-candidates-one-sequence" if k0 in V else "C05/accepted-candidate-not-valid",
                      "%s produced by %d accepted candidates, reference multiplicity %d" % (
                          json.dumps(refsem.key_to_named(m, k0)) if k0[0] != "MISSING-FACTOR" else str(k0), L[k0], V.get(k0, 0))))
    missing = {k: v for k, v in V.items() if L.get(k, 0) < v}
    if missing:
        k0 = sorted(missing, key=repr)[0]
        viols.append(("C05/valid-sequence-without-candidate", "%s has %d candidates, reference multiplicity %d" % (
            json.dumps(refsem.key_to_named(m, k0)), L.get(k0, 0), V[k0])))
    # (ii) every key visited
    if tr.possible_keys is not None and len(keys) != tr.possible_keys:
        viols.append(("C05/candidate-count", "possible_keys=%d, distinct keys visited=%d" % (tr.possible_keys, len(keys))))
    # (iii) equally likely candidates (exact arithmetic)
    probs = defaultdict(list)
    for k, a in keys.items():
        probs[a["prob"]].append(k)
    if len(probs) > 1:
        ps = sorted(probs)
        shape = "leftover" if tr.leftover > 0 else ("weighted" if not tr.enumerator._crossing_is_unweighted else "other")
        viols.append(("C05/unequal-candidates/" + shape,
                      "%d candidate keys carry %d different probabilities, e.g. key %r has %s and key %r has %s" % (
                          len(keys), len(ps), probs[ps[0]][0], ps[0], probs[ps[-1]][0], ps[-1])))
    elif len(probs) == 1 and tr.possible_keys and len(keys) == tr.possible_keys:
        # equally likely over N candidates, every one of them visited: each has probability 1/N.  The ledger multiplies
        # 1/range over the integer draws made for the candidate; a candidate chosen some other way (a float scaled to the
        # range resolves 2^53 values at most, so beyond that most candidates can never be drawn) shows as a path that is
        # too likely.
        p = next(iter(probs))
        if p != 0 and 1 / p != tr.possible_keys:
            viols.append(("C05/candidate-probability-is-not-one-in-N",
                          "each of the %d candidate keys was drawn with probability %s by the integer draws made for it" % (tr.possible_keys, p)))
    base["summary"]["distinct_probabilities"] = len(probs)
    viols = [(common.with_family(sg, m), dt) for sg, dt in viols]
    viol = common.pick_violation(PROP, viols)
    if viol:
        base.update(outcome="violation", signature=viol[0], detail=viol[1] + " ; design=" + dast.describe(ast))
        return base
    base["outcome"] = "ok"
    return base


def shrink_candidates(case):
    yield from c06.shrink_candidates(case)
