"""C09 - without-replacement samplers return distinct sequences, as many as exist (DESIGN.md section 6, C09)."""
import json
from collections import Counter

from .. import common, dast, gen, refsem, world as W

PROP = "C09"
LEVEL = "exploration"
RULE = ("seeded designs; IterateSATGen / RandomGen / IterateGen asked for n in {0,1,|V|-1,|V|,|V|+1,3|V|} sequences; "
        "oracle: len = min(n,|V|) and no printed sequence more often than its reference multiplicity (B.8); fault runs: "
        "fewer may come back, never duplicates; non-trivial = |V|>=2; distinct = (design skeleton, strategy, n-class, peer)")
ASSUMPTIONS = ["reference semantics (sim/refsem.py) reads the documentation correctly",
               "fake peers return only genuine models of the clauses they receive"]
BUDGET = {"quick": 300, "thorough": 900}
RUNS = {"quick": 2500, "thorough": 200000}
THOROUGH_RUNS = 5000        # the thorough tier of this (expensive) check: a fixed range sized to stay within ~15 minutes
NCLASS = ["0", "1", "V-1", "V", "V+1", "3V"]


def gen_case(rs, tier):
    rng = W.stream(rs, "design")
    krng = W.stream(rs, "knobs")
    cfg = gen.swarm(krng, tier)
    ast = gen.gen_design(rng, cfg, tier)
    if ast is None:
        return None
    knobs = common.draw_knobs(krng)
    faults = []
    if krng.random() < 0.2:
        from .c01 import gen_faults
        faults = [f for f in gen_faults(W.stream(rs, "faults")) if f["kind"] in ("peer.unknown", "fs.eio", "fs.enospc", "fs.vanish")]
    case = {"design": ast, "knobs": knobs, "tier": tier, "faults": faults,
            "strategy": krng.choice(["IterateSATGen", "RandomGen", "IterateGen"]),
            "nclasses": krng.sample(NCLASS, 2)}
    case["sweep"] = W.stream(rs, "sweep").random() < (0.15 if tier == "thorough" else 0.04)
    if case["sweep"]:
        case["timeout"] = 150        # one workload, run once per fault placement
    return case


def n_of(cls, total):
    return {"0": 0, "1": 1, "V-1": max(0, total - 1), "V": total, "V+1": total + 1, "3V": 3 * total}[cls]


def run_one(case):
    ast = case["design"]
    tier = case.get("tier", "quick")
    m = refsem.elaborate(ast)
    if m.status == "rejected":
        return {"outcome": "skip", "reason": "ref-rejected"}
    if m.gaps:
        return {"outcome": "skip", "reason": "doc-gap:" + m.gaps[0]}
    V = common.enum_or_skip(m, tier, cap=150 if tier == "quick" else 1000)
    if V is None or sum(V.values()) > (200 if tier == "quick" else 1500):
        return beyond_enumeration(case, m, ast)
    total = sum(V.values())
    strat = case["strategy"]
    viols = []
    with W.SimWorld(case["run_seed"], case["knobs"], case.get("faults")) as w:
        blk, b, exc = common.construct(w, ast)
        if exc is not None:
            return common.result_base(w, outcome="skip", reason="constructor-refused:" + type(exc).__name__)
        if m.status == "ok" and blk.trials_per_sample() != m.T:
            return common.result_base(w, outcome="skip", reason="trial-count-differs(C16)")
        ran = 0
        for cls in case["nclasses"]:
            n = n_of(cls, total)
            w.peer_calls_cap = w.counters.get("peer.solve", 0) + total + 20
            w.rng.draws = 0
            w.draw_cap = 200000
            try:
                with common.time_limit(8):
                    res, exc = common.synth(w, blk, strat, n)
            except (common.InnerTimeout, W.HarnessCap):
                w.count("inner-cap")
                continue
            if exc is not None:
                continue     # C08
            ran += 1
            L = common.lib_multiset(m, res)
            # a call that RETURNS must return min(n, available): an injected I/O error or engine failure makes the unchanged
            # library raise or fall back to the other transport, never return a short list.  Only a solver that answered
            # "unknown" ends the iteration early without an error (existing, documented behaviour of compute_solutions)
            # (an *injected* "unknown" only: the shipped library passes its solver no limit, so a solver that gives up because
            # of a limit the library itself set, after which the library hands back a shorter list as if it were complete, is
            # not excused - that is the count clause of C09 failing)
            faulted = bool(w.fault_fired.get("peer.unknown"))
            over = {k: v for k, v in L.items() if k in V and v > V[k]}
            if over:
                k0 = sorted(over, key=repr)[0]
                viols.append(("C09/duplicate-solution/%s" % ("sat" if strat != "RandomGen" else "random"),
                              "%s n=%s(%d): %s returned %d times, allowed %d" % (strat, cls, n, json.dumps(refsem.key_to_named(m, k0)), L[k0], V[k0])))
            want = min(n, total)
            if len(res) > n:
                viols.append(("C09/more-than-requested", "%s n=%d returned %d" % (strat, n, len(res))))
            elif len(res) != want and not faulted and all(k in V for k in L):
                viols.append(("C09/count/%s/%s" % ("sat" if strat != "RandomGen" else "random", "fewer" if len(res) < want else "more"),
                              "%s n=%s(%d): returned %d, available %d" % (strat, cls, n, len(res), total)))
        base = common.result_base(w, key=str((dast.skeleton(ast), strat, tuple(case["nclasses"]), case["knobs"]["peer"])),
                                  nontrivial=total >= 2 and ran > 0,
                                  summary={"design": dast.describe(ast), "V_total": total, "strategy": strat, "n": case["nclasses"],
                                           "peer": case["knobs"]["peer"], "faults": case.get("faults")})
        viols = [(common.with_family(sg, m), dt) for sg, dt in viols]
        viol = common.pick_violation(PROP, viols)
        if viol:
            base.update(outcome="violation", signature=viol[0], detail=viol[1] + " ; design=" + dast.describe(ast))
            return base
        base["outcome"] = "ok"
        return base


def beyond_enumeration(case, m, ast):
    """Too many valid sequences for the reference to list them - but "never the same solution twice" needs no list.  When
    no factor carries a weight (so two sequences that print identically ARE the same solution, B.8 does not apply) and the
    sampler can be exhausted within the bounds, every returned sequence must be printed differently from every other."""
    strat = case["strategy"]
    # (the statement excuses identical printing only for "a weighted level of a factor outside the crossing": weights on
    # crossed factors, basic or derived, do not make two sequences print alike)
    crossed = set()
    for b_ in dast.iter_blocks(ast["block"]):
        if b_["kind"] in ("cross", "multicross"):
            for cr in dast.block_crossings(b_):
                crossed.update(cr)
    weighted = any((lv[1] if f["kind"] == "basic" else lv.get("weight", 1)) != 1
                   for f in ast["factors"] if f["kind"] in ("basic", "derived") and f["id"] not in crossed for lv in f["levels"])
    if weighted or case.get("faults") or strat == "IterateGen" or m.status != "ok":
        return {"outcome": "skip", "reason": "too-big"}
    N = 3000
    with W.SimWorld(case["run_seed"], case["knobs"]) as w:
        blk, b, exc = common.construct(w, ast)
        if exc is not None:
            return common.result_base(w, outcome="skip", reason="constructor-refused:" + type(exc).__name__)
        w.peer_calls_cap = N + 20
        w.rng.draws = 0
        w.rng.track = False
        w.draw_cap = 3000000
        try:
            with common.time_limit(12):
                res, exc = common.synth(w, blk, strat, N)
        except (common.InnerTimeout, W.HarnessCap):
            return common.result_base(w, outcome="skip", reason="too-big")
        if exc is not None or res is None or len(res) >= N:
            return common.result_base(w, outcome="skip", reason="too-big")
        seen = {}
        dup = None
        for i, e in enumerate(res):
            k = tuple(sorted((str(n_), tuple(map(str, v))) for n_, v in e.items()))
            if k in seen:
                dup = (seen[k], i, e)
                break
            seen[k] = i
        base = common.result_base(w, key=str((dast.skeleton(ast), strat, "beyond-enumeration")), nontrivial=len(res) >= 2,
                                  summary={"design": dast.describe(ast), "returned": len(res), "strategy": strat, "beyond_enumeration": True})
        w.count("exhausted-beyond-enumeration")
        if dup:
            base.update(outcome="violation",
                        signature=common.with_family("C09/duplicate-solution/%s/beyond-enumeration" % ("sat" if strat != "RandomGen" else "random"), m),
                        detail="%s, asked for %d, returned %d sequences of which number %d and number %d are the same: %s ; design=%s"
                        % (strat, N, len(res), dup[0], dup[1], json.dumps(dup[2], default=str)[:300], dast.describe(ast)))
            return base
        base["outcome"] = "ok"
        return base


SWEEP_KINDS = ['fs.enospc', 'fs.eio', 'fs.vanish', 'peer.unknown']


def run_case(case):
    """A sweep case runs the workload fault-free and then once per (operation index x fault kind) placement."""
    if case.get("sweep"):
        return common.fault_sweep(run_one, case, SWEEP_KINDS, cap=160 if case.get("tier") == "thorough" else 60)
    return run_one(case)


def shrink_candidates(case):
    yield from common.shrink_case(case)
    if len(case["nclasses"]) > 1:
        for c_ in case["nclasses"]:
            c = dict(case)
            c["nclasses"] = [c_]
            yield c
