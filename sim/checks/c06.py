"""C05/C06/C07 share one run: RandomGen driven to exhaustion under a scripted RNG with an exact probability ledger.
This module is the C06 check (exhaustion = V, stops, reported count); c05.py and c07.py reuse run_exhaust()."""
import json
import math
from collections import Counter

from .. import common, dast, gen, refsem, rgworld, world as W

PROP = "C06"
LEVEL = "exploration"
RULE = ("seeded designs RandomGen accepts; RandomGen asked for possible_keys+5 sequences under a scripted RNG so that its "
        "without-replacement loop visits every candidate key; oracle: returned multiset = V (B.8 multiplicities), the call stops "
        "(integer draws <= 64*K*(ln K+8)), solution_count = |V| when no candidate is rejected and the enumerator has one "
        "round, no preamble choice and no leftover; non-trivial = |V|>=2; distinct = (design skeleton, rng mode)")
ASSUMPTIONS = ["reference semantics (sim/refsem.py) reads the documentation correctly"]
BUDGET = {"quick": 300, "thorough": 900}
RUNS = {"quick": 2500, "thorough": 100000}
KCAP = {"quick": 3000, "thorough": 40000}


def gen_case(rs, tier, prop="C06"):
    rng = W.stream(rs, "design")
    krng = W.stream(rs, "knobs")
    cfg = gen.swarm(krng, tier)
    cfg["n_constraints"] = min(cfg["n_constraints"], 2)
    cfg["combinators"] = krng.random() < 0.3
    ast = gen.gen_design(rng, cfg, tier)
    if ast is None:
        return None
    knobs = common.draw_knobs(krng)
    knobs["rng_mode"] = "random"       # exhaustion needs a script that can reach every key
    case = {"design": ast, "knobs": knobs, "tier": tier}
    prng = W.stream(rs, "prelude")
    if prng.random() < 0.3:
        # history: the same process sampled from a sibling design first (same shape, other level weights), the way a user
        # tweaks weights and samples again; whatever that call leaves behind must not change the result of this one
        sib = dast.clone(ast)
        cands = [(fi, li) for fi, f in enumerate(sib["factors"]) if f["kind"] in ("basic", "derived") for li in range(len(f["levels"]))]
        def getw(f, li):
            return f["levels"][li][1] if f["kind"] == "basic" else f["levels"][li].get("weight", 1)

        def setw(f, li, v):
            if f["kind"] == "basic":
                f["levels"][li][1] = v
            else:
                f["levels"][li]["weight"] = v
        heavy = [(fi, li) for fi, li in cands if getw(sib["factors"][fi], li) >= 2]
        if heavy and prng.random() < 0.7:
            # same number of combinations and the same round length, other per-combination counts: move one unit of
            # weight to another level of the same factor (or rotate the factor's weights)
            fi, li = prng.choice(heavy)
            f = sib["factors"][fi]
            if prng.random() < 0.3:
                ws = [getw(f, j) for j in range(len(f["levels"]))]
                ws = ws[1:] + ws[:1]
                for j, v in enumerate(ws):
                    setw(f, j, v)
            else:
                lj = prng.choice([j for j in range(len(f["levels"])) if j != li])
                setw(f, li, getw(f, li) - 1)
                setw(f, lj, getw(f, lj) + 1)
        else:
            for _ in range(prng.choice([1, 1, 2])):
                fi, li = prng.choice(cands)
                setw(sib["factors"][fi], li, prng.choice([1, 2, 3]))
        case["prelude"] = {"design": sib, "n": prng.choice([1, 2, 5]), "strategy": prng.choice(["RandomGen", "RandomGen", "IterateSATGen"])}
    return case


def estimate_keys(m):
    """Upper estimate of RandomGen's candidate-key space from the reference model, to skip before the enumerator is built
    (its constructor can take minutes: sum_combination_products)."""
    F = m.factors
    if not m.crossings:
        per = 1
        for fid in m.design:
            if F[fid].kind == "basic":
                per *= len(F[fid].levels)
        return per ** m.T
    c = m.crossings[0]
    n = c.chunk
    est = math.factorial(min(n, 12))
    for fid in m.design:
        if F[fid].kind == "basic" and fid not in c.fids:
            est *= sum(F[fid].weights.values()) ** m.T
    pre = c.start
    if pre:
        per = 1
        for fid in m.design:
            if F[fid].kind == "basic":
                per *= len(F[fid].levels)
        est *= per ** pre
    rounds = max(1, (m.T - pre) // max(1, n))
    return est ** rounds if rounds > 1 else est


def run_exhaust(case, need_ref=True):
    """Returns (early_result | None, ctx).  ctx: m, V, total, res, tr, w(base result), blk"""
    ast = case["design"]
    tier = case.get("tier", "quick")
    m = refsem.elaborate(ast)
    if m.status == "rejected":
        return {"outcome": "skip", "reason": "ref-rejected"}, None
    V = None
    if need_ref:
        if m.gaps:
            return {"outcome": "skip", "reason": "doc-gap:" + m.gaps[0]}, None
    if m.T is None or estimate_keys(m) > KCAP[tier] * 20:
        return {"outcome": "skip", "reason": "too-big"}, None
    if need_ref:
        V = common.enum_or_skip(m, tier)
        if V is None or sum(V.values()) > (400 if tier == "quick" else 3000):
            return {"outcome": "skip", "reason": "too-big"}, None
    w = W.SimWorld(case["run_seed"], case["knobs"])
    w.__enter__()
    try:
        pre = case.get("prelude")
        if pre:
            pblk, _, pexc = common.construct(w, pre["design"])
            if pexc is None:
                w.draw_cap = 200000
                w.peer_calls_cap = 50
                try:
                    with common.time_limit(4):
                        common.synth(w, pblk, pre["strategy"], pre["n"])
                    w.count("prelude-call")
                except (common.InnerTimeout, W.HarnessCap):
                    pass
                w.rng.draws = 0
        blk, b, exc = common.construct(w, ast)
        if exc is not None:
            return common.result_base(w, outcome="skip", reason="constructor-refused:" + type(exc).__name__), None
        if need_ref and m.status == "ok" and blk.trials_per_sample() != m.T:
            return common.result_base(w, outcome="skip", reason="trial-count-differs(C16)"), None
        w.draw_cap = 4_000_000
        tr = rgworld.RGTrace()
        try:
            with common.time_limit(12 if tier == "quick" else 40):
                res, exc, tr = rgworld.run_randomgen(w, blk, 10 ** 9, tr=tr)
        except common.InnerTimeout:
            return common.result_base(w, outcome="skip", reason="enumerator-too-slow"), None
        except W.HarnessCap:
            if tr.enumerator is not None and tr.instrumented:
                K = rgworld.possible_keys_of(tr.enumerator, blk)
                if K > 0 and w.rng.draws > 64 * K * (math.log(K) + 8) + 1000:
                    return common.result_base(w, outcome="violation", signature="C06/LIVENESS/does-not-stop",
                                              detail="RandomGen made %d integer draws for %d candidate keys (%d visited) and is still searching ; design=%s" % (
                                                  w.rng.draws, K, len(set(a["key"] for a in tr.attempts)), dast.describe(ast))), None
            return common.result_base(w, outcome="skip", reason="draw-cap"), None
        if exc is not None:
            return common.result_base(w, outcome="skip", reason="exception(C08):" + type(exc).__name__), None
        ctx = {"m": m, "V": V, "res": res, "tr": tr, "blk": blk, "ast": ast, "w": w}
        return None, ctx
    finally:
        w.__exit__(None, None, None)


def base_of(ctx, case, **extra):
    w = ctx["w"]
    tr = ctx["tr"]
    V = ctx["V"]
    d = common.result_base(w, key=str((dast.skeleton(ctx["ast"]), case["knobs"]["rng_mode"])),
                           nontrivial=bool(V is not None and sum(V.values()) >= 2) or (V is None and len(ctx["res"]) >= 2),
                           summary={"design": dast.describe(ctx["ast"]), "returned": len(ctx["res"]),
                                    "V_total": sum(V.values()) if V is not None else None,
                                    "possible_keys": tr.possible_keys, "attempts": len(tr.attempts),
                                    "rejected": sum(1 for a in tr.attempts if a["accepted"] is False),
                                    "draws": w.rng.draws, "metrics_solution_count": (tr.metrics or {}).get("solution_count")})
    d.update(extra)
    return d


def run_case(case):
    early, ctx = run_exhaust(case)
    if early is not None:
        return early
    m, V, res, tr, w, ast = ctx["m"], ctx["V"], ctx["res"], ctx["tr"], ctx["w"], ctx["ast"]
    base = base_of(ctx, case)
    total = sum(V.values())
    L = common.lib_multiset(m, res)
    viols = []
    extra = {k: v for k, v in L.items() if v > V.get(k, 0)}
    missing = {k: v for k, v in V.items() if L.get(k, 0) < v}
    if extra:
        k0 = sorted(extra, key=repr)[0]
        if k0 not in V:
            bad = refsem.valid(m, dict(zip(m.design, [list(x) for x in k0]))) if k0[0] != "MISSING-FACTOR" else ["missing factor"]
            viols.append(("C06/not-valid/" + (common.invalid_tail(m, bad) if bad else "?"),
                          "returned %s which is not valid: %s" % (json.dumps(refsem.key_to_named(m, k0)) if k0[0] != "MISSING-FACTOR" else k0, bad[:2])))
        else:
            viols.append(("C06/returned-more-often-than-allowed", "%s returned %d times, allowed %d" % (json.dumps(refsem.key_to_named(m, k0)), L[k0], V[k0])))
    if missing:
        k0 = sorted(missing, key=repr)[0]
        viols.append(("C06/missing-valid-sequence" + ("/all" if not L else ""),
                      "exhausted RandomGen returned %d of %d; never returned: %s (x%d of %d)" % (len(res), total, json.dumps(refsem.key_to_named(m, k0)), L.get(k0, 0), V[k0])))
    K = tr.possible_keys
    if K is not None and K > 0 and w.rng.draws > 64 * K * (math.log(K) + 8) + 1000:
        viols.append(("C06/LIVENESS/too-many-draws", "%d integer draws for %d candidate keys" % (w.rng.draws, K)))
    if K is not None and len(set(a["key"] for a in tr.attempts)) != K:
        viols.append(("C06/candidate-count", "possible_keys=%d but %d distinct keys were visited before RandomGen stopped" % (K, len(set(a["key"] for a in tr.attempts)))))
    if tr.metrics is not None and tr.enumerator is not None and tr.instrumented:
        e = tr.enumerator
        rejected = sum(1 for a in tr.attempts if a["accepted"] is False)
        if rejected == 0 and e.preamble_solution_count() == 1 and tr.rounds == 1 and tr.leftover == 0:
            if tr.metrics.get("solution_count") != total:
                viols.append(("C06/solution-count", "metrics['solution_count']=%r but %d valid sequences exist (no candidate was rejected)" % (tr.metrics.get("solution_count"), total)))
    viols = [(common.with_family(sg, m), dt) for sg, dt in viols]
    viol = common.pick_violation(PROP, viols)
    if viol:
        base.update(outcome="violation", signature=viol[0], detail=viol[1] + " ; design=" + dast.describe(ast))
        return base
    base["outcome"] = "ok"
    return base


def shrink_candidates(case):
    if case.get("prelude"):
        c = dict(case)
        c["prelude"] = None
        yield c
    yield from common.shrink_case(case)
