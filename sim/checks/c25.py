"""C25 - Nest holds outer levels fixed over each inner run (DESIGN.md C25, sampler-visible form)."""
import itertools
import json
from collections import Counter

from .. import common, dast, gen, gencomb, refsem, world as W

PROP = "C25"
LEVEL = "exploration"
RULE = ("seeded Nest(outer, inner) designs over disjoint crossings without preambles (and nested Nest for associativity); the "
        "operands and the nest are exhausted with IterateSATGen in one world; oracle from the statement: length = outer x inner, "
        "outer crossed factors constant per group, group representatives form a valid outer sequence, every group is a valid "
        "inner sequence (inner crossing and constraints per group), completeness: every product of a valid outer sequence with "
        "valid inner sequences (filtered by the Nest's own constraints, which apply to the whole sequence) is returned; "
        "associativity Nest(a,Nest(b,c)) = Nest(Nest(a,b),c); non-trivial = >=2 nest solutions; distinct = design skeleton")
ASSUMPTIONS = ["constraints attached to the OUTER block have no documented meaning under Nest and are not generated",
               "whole-sequence constraints of the Nest are evaluated with sim/refsem.py's constraint semantics"]
BUDGET = {"quick": 300, "thorough": 900}
RUNS = {"quick": 250, "thorough": 45000}
THOROUGH_RUNS = 700        # the thorough tier of this (expensive) check: a fixed range sized to stay within ~15 minutes


def gen_case(rs, tier):
    rng = W.stream(rs, "design")
    krng = W.stream(rs, "knobs")
    cfg = gen.swarm(krng, tier)
    cfg["weights"] = cfg["weights"] and krng.random() < 0.5
    cfg["derived"] = 0
    cfg["nest_small"] = True
    knobs = common.draw_knobs(krng, transports=("lib",))
    if krng.random() < 0.25:
        # associativity: three single-factor blocks
        import math
        for _ in range(6):
            nl = [rng.choice([2, 2, 3]) for _ in range(3)]
            # |V(Nest(a, Nest(b, c)))| = a! * (b!)^a * (c!)^(a*b): keep it within the exhaustion cap
            if math.factorial(nl[0]) * math.factorial(nl[1]) ** nl[0] * math.factorial(nl[2]) ** (nl[0] * nl[1]) <= 300:
                break
        else:
            nl = [2, 2, 2]
        facs = [gencomb._basic(i, nl[i]) for i in range(3)]
        blocks = [gencomb._cross([f["id"]], [f["id"]], []) for f in facs]
        lhs = {"kind": "nest", "outer": blocks[0], "inner": {"kind": "nest", "outer": blocks[1], "inner": blocks[2], "constraints": [], "alignment": None}, "constraints": [], "alignment": None}
        rhs = {"kind": "nest", "outer": {"kind": "nest", "outer": blocks[0], "inner": blocks[1], "constraints": [], "alignment": None}, "inner": blocks[2], "constraints": [], "alignment": None}
        return {"mode": "assoc", "factors": facs, "lhs": lhs, "rhs": rhs, "knobs": knobs, "tier": tier}
    ast = gencomb.gen_combinator_design(rng, cfg, tier, "nest")
    return {"mode": "product", "design": ast, "knobs": knobs, "tier": tier}


def key(e):
    return tuple(sorted((str(k), tuple(v)) for k, v in e.items()))


def exhaust(w, blk, cap):
    w.peer_calls_cap = w.counters.get("peer.solve", 0) + cap + 30
    return common.synth(w, blk, "IterateSATGen", cap + 1)


def run_assoc(case):
    cap = 300
    a = {"factors": case["factors"], "block": case["lhs"]}
    b = {"factors": case["factors"], "block": case["rhs"]}
    with W.SimWorld(case["run_seed"], case["knobs"]) as w:
        bl, _, el = common.construct(w, a)
        br, _, er = common.construct(w, b)
        base = common.result_base(w, key="assoc:" + dast.skeleton(a), summary={"lhs": dast.describe(a), "rhs": dast.describe(b)})
        if el is not None or er is not None:
            if (el is None) != (er is None):
                base.update(outcome="violation", signature="C25/assoc/constructor-outcome-differs", nontrivial=True,
                            detail="lhs %r rhs %r ; %s" % (repr(el)[:120], repr(er)[:120], dast.describe(a)))
                return base
            base.update(outcome="skip", reason="both-refuse")
            return base
        if bl.trials_per_sample() != br.trials_per_sample():
            base.update(outcome="violation", signature="C25/assoc/trial-count-differs", nontrivial=True,
                        detail="lhs %d rhs %d ; %s" % (bl.trials_per_sample(), br.trials_per_sample(), dast.describe(a)))
            return base
        try:
            with common.time_limit(15):
                rl, xl = exhaust(w, bl, cap)
                rr, xr = exhaust(w, br, cap)
        except (common.InnerTimeout, W.HarnessCap):
            base.update(outcome="skip", reason="cap")
            return base
        if xl is not None or xr is not None or len(rl) > cap or len(rr) > cap:
            base.update(outcome="skip", reason="too-big-or-raised")
            return base
        base = common.result_base(w, key="assoc:" + dast.skeleton(a), nontrivial=len(rl) >= 2,
                                  summary={"lhs": dast.describe(a), "rhs": dast.describe(b), "solutions": [len(rl), len(rr)]})
        if Counter(map(key, rl)) != Counter(map(key, rr)):
            base.update(outcome="violation", signature="C25/assoc/solution-sets-differ",
                        detail="Nest(a,Nest(b,c)) has %d solutions, Nest(Nest(a,b),c) has %d ; %s" % (len(rl), len(rr), dast.describe(a)))
            return base
        base["outcome"] = "ok"
        return base


def run_product(case):
    ast = case["design"]
    nest = ast["block"]
    cap = 120 if case.get("tier") != "thorough" else 3000
    fb = dast.factors_by_id(ast)
    o_ast = {"factors": [f for f in ast["factors"] if f["id"] in nest["outer"]["design"]], "block": nest["outer"]}
    i_ast = {"factors": [f for f in ast["factors"] if f["id"] in nest["inner"]["design"]], "block": nest["inner"]}
    with W.SimWorld(case["run_seed"], case["knobs"]) as w:
        bn, _, en = common.construct(w, ast)
        bo, _, eo = common.construct(w, o_ast)
        bi, _, ei = common.construct(w, i_ast)
        base = common.result_base(w, key=dast.skeleton(ast), summary={"design": dast.describe(ast)})
        if en is not None or eo is not None or ei is not None:
            base.update(outcome="skip", reason="constructor-refused")
            return base
        To, Ti, Tn = bo.trials_per_sample(), bi.trials_per_sample(), bn.trials_per_sample()
        viols = []
        if Tn != To * Ti:
            # needs no solver: report it before any size cap can turn the case into a skip
            base.update(outcome="violation", signature="C25/trial-count", nontrivial=True,
                        detail="Nest has %d trials, outer %d x inner %d ; design=%s" % (Tn, To, Ti, dast.describe(ast)))
            return base
        try:
            with common.time_limit(15):
                ro, xo = exhaust(w, bo, 60)
                ri, xi = exhaust(w, bi, 60)
                if xo is not None or xi is not None or len(ro) > 60 or len(ri) > 60:
                    base.update(outcome="skip", reason="operands-too-big-or-raised")
                    return base
                expected_n = len(ro) * (len(ri) ** To)
                if expected_n > cap:
                    base.update(outcome="skip", reason="too-big")
                    return base
                rn, xn = exhaust(w, bn, cap)
        except (common.InnerTimeout, W.HarnessCap):
            base.update(outcome="skip", reason="cap")
            return base
        if xn is not None:
            base.update(outcome="skip", reason="exception(C08):" + type(xn).__name__)
            return base
        o_names = [fb[i]["name"] for i in nest["outer"]["design"]]
        o_crossed = [fb[i]["name"] for i in nest["outer"]["crossing"]]
        i_names = [fb[i]["name"] for i in nest["inner"]["design"]]
        Vo = set(key({k: e[k] for k in o_crossed}) for e in ro)
        Vi = set(key({k: e[k] for k in i_names}) for e in ri)
        # --- structural check of every returned sequence
        if not viols:
            for e in rn:
                if any(len(v) != Tn for v in e.values()):
                    viols.append(("C25/sequence-length", "%s" % {k: len(v) for k, v in e.items()}))
                    break
                reps = {}
                bad = None
                for k in o_crossed:
                    col = e[k]
                    for g in range(To):
                        grp = col[g * Ti:(g + 1) * Ti]
                        if len(set(grp)) != 1:
                            bad = ("C25/outer-level-not-constant-in-group", "factor %s group %d: %r" % (k, g, grp))
                    reps[k] = [col[g * Ti] for g in range(To)]
                if bad is None and key(reps) not in Vo:
                    bad = ("C25/group-representatives-not-a-valid-outer-sequence", "representatives %r" % reps)
                if bad is None:
                    for g in range(To):
                        grp = {k: e[k][g * Ti:(g + 1) * Ti] for k in i_names}
                        if key(grp) not in Vi:
                            bad = ("C25/group-not-a-valid-inner-sequence", "group %d: %r" % (g, grp))
                            break
                if bad:
                    viols.append((bad[0], bad[1] + " ; sequence=%s" % json.dumps(e)[:300]))
                    break
        # --- the combinatoric sampler enforces the Nest structure with other code (its own conformance checks): a few of its
        # sequences go through the same structural check
        if not viols:
            try:
                w.draw_cap = w.rng.draws + 60000
                with common.time_limit(6):
                    rr, xr = common.synth(w, bn, "RandomGen", 6)
            except (common.InnerTimeout, W.HarnessCap):
                rr, xr = None, None
            for e in (rr or []):
                bad = None
                if any(len(v) != Tn for v in e.values()):
                    bad = ("C25/sequence-length/random", "%s" % {k: len(v) for k, v in e.items()})
                reps = {}
                for k in o_crossed:
                    col = e[k]
                    for g in range(To):
                        grp = col[g * Ti:(g + 1) * Ti]
                        if bad is None and len(set(grp)) != 1:
                            bad = ("C25/outer-level-not-constant-in-group/random", "factor %s group %d: %r" % (k, g, grp))
                    reps[k] = [col[g * Ti] for g in range(To)]
                if bad is None and key(reps) not in Vo:
                    bad = ("C25/group-representatives-not-a-valid-outer-sequence/random", "representatives %r" % reps)
                if bad is None:
                    for g in range(To):
                        grp = {k: e[k][g * Ti:(g + 1) * Ti] for k in i_names}
                        if key(grp) not in Vi:
                            bad = ("C25/group-not-a-valid-inner-sequence/random", "group %d: %r" % (g, grp))
                            break
                if bad:
                    viols.append((bad[0], "RandomGen: " + bad[1] + " ; sequence=%s" % json.dumps(e)[:300]))
                    break
        # --- completeness by the product construction (no whole-sequence constraints, disjoint designs)
        if not viols and not nest["constraints"] and set(o_names) == set(o_crossed) and not (set(o_names) & set(i_names)):
            N = Counter(map(key, rn))
            exp = Counter()
            for eo_ in ro:
                for combo in itertools.product(ri, repeat=To):
                    seq = {}
                    for k in o_crossed:
                        seq[k] = [eo_[k][g] for g in range(To) for _ in range(Ti)]
                    for k in i_names:
                        seq[k] = [v for g in range(To) for v in combo[g][k]]
                    exp[key(seq)] += 1
            if N != exp:
                miss = sorted(set(exp) - set(N))
                extra = sorted(set(N) - set(exp))
                viols.append(("C25/product-structure/%s" % ("missing" if miss and not extra else ("extra" if extra and not miss else "multiplicity-or-both")),
                              "Nest returns %d sequences, product construction gives %d; missing %s ; extra %s" % (
                                  sum(N.values()), sum(exp.values()), json.dumps(dict(miss[0]))[:250] if miss else None, json.dumps(dict(extra[0]))[:250] if extra else None)))
        base = common.result_base(w, key=dast.skeleton(ast), nontrivial=len(rn) >= 2,
                                  summary={"design": dast.describe(ast), "outer": len(ro), "inner": len(ri), "nest": len(rn), "T": [To, Ti, Tn]})
        # family tag: an inner run that is not a whole number of (weighted) crossing rounds - a region with a recorded defect
        size_i = 1
        for fid in nest["inner"].get("crossing", []):
            size_i *= sum(w for _, w in fb[fid]["levels"]) if fb[fid]["kind"] == "basic" else sum(l.get("weight", 1) for l in fb[fid]["levels"])
        tag = "/inner-partial-round" if nest["inner"]["kind"] == "cross" and size_i and Ti % size_i != 0 else ""
        viols = [(sg + tag, dt) for sg, dt in viols]
        viol = common.pick_violation(PROP, viols)
        if viol:
            base.update(outcome="violation", signature=viol[0], detail=viol[1] + " ; design=" + dast.describe(ast))
            return base
        base["outcome"] = "ok"
        return base


def run_case(case):
    return run_assoc(case) if case["mode"] == "assoc" else run_product(case)


def shrink_candidates(case):
    if case["mode"] != "product":
        return
    ast = case["design"]
    for a in common.design_shrinks(ast):
        if a["block"]["kind"] == "nest":
            c = dict(case)
            c["design"] = a
            yield c
