"""C26 - block constraints apply per repetition; combinator constraints apply globally (DESIGN.md C26)."""
import itertools
import json
from collections import Counter

from .. import common, dast, gen, gencomb, refsem, world as W

PROP = "C26"
LEVEL = "exploration"
RULE = ("seeded placements of one constraint (Pin, ExactlyK, AtLeastKInARow, ExactlyKInARow, AtMostKInARow, equal weight) either "
        "on the inner block or on the combinator of Repeat / Merge, with and without preamble (transition factor in the crossing); "
        "the composed block is exhausted with IterateSATGen; oracle A: the reference semantics with repetition windows (R-SCOPE: "
        "each repetition plus its preceding preamble trials; combinator constraints over the whole sequence); oracle B "
        "(preamble-free Repeat): concatenations of the library's own solutions of the unconstrained inner block, filtered by the "
        "constraint per repetition or globally; non-trivial = >=2 solutions of the composed block and >=2 repetitions; distinct = "
        "(constraint kind, placement, combinator, preamble, design skeleton)")
ASSUMPTIONS = ["reference window semantics (sim/refsem.py B.5/B.6) reads the documentation correctly"]
BUDGET = {"quick": 300, "thorough": 900}
RUNS = {"quick": 1500, "thorough": 60000}
THOROUGH_RUNS = 3600        # the thorough tier of this (expensive) check: a fixed range sized to stay within ~15 minutes
KINDS = ["pin", "exactlyk", "atleast", "exactlyrow", "atmost"]


def gen_case(rs, tier):
    rng = W.stream(rs, "design")
    krng = W.stream(rs, "knobs")
    cfg = gen.swarm(krng, tier)
    cfg["weights"] = False
    cfg["bad_tables"] = False
    cfg["win_window"] = False
    cfg["win_within"] = False
    cfg["win_transition"] = True
    cfg["derived"] = 1
    cfg["nested_derived"] = False
    cfg["else_level"] = False
    facs = [gencomb._basic(i, rng.choice([2, 2, 3])) for i in range(2)]
    if rng.random() < 0.45:
        facs = facs[:1]        # without the uncrossed factor the solution set stays small enough for 3 repetitions
    elif rng.random() < 0.3:
        for lv in facs[1]["levels"]:          # the uncrossed factor may carry weights (it is desugared by the block)
            lv[1] = rng.choice([1, 2])
    preamble = rng.random() < 0.35
    crossing = [facs[0]["id"]]
    if preamble:
        d = gen._gen_derived(rng, cfg, facs[:1], 0)
        if d is None or d["window"]["kind"] != "transition":
            preamble = False
        else:
            facs.append(d)
            crossing = [d["id"]] if len(d["levels"]) <= 3 else crossing
            if crossing == [facs[0]["id"]]:
                preamble = False
    ids = [f["id"] for f in facs]
    fb = {f["id"]: f for f in facs}
    size = 1
    for c in crossing:
        size *= len(fb[c]["levels"])
    kind = krng.choice(KINDS)
    tf = rng.choice(facs)
    lv = rng.choice(tf["levels"])
    con = {"id": "cx", "kind": kind, "target": [tf["id"], lv[0] if tf["kind"] == "basic" else lv["name"]], "spelling": "tuple"}
    reps = rng.choice([2, 2, 3])
    if kind == "pin":
        con["index"] = rng.choice([0, 1, -1, -2, size - 1, size])
    else:
        con["k"] = rng.randint(1, 3)
    placement = krng.choice(["inner", "combinator"])
    combinator = krng.choice(["repeat", "repeat", "merge"])
    inner = gencomb._cross(ids, crossing, [con] if placement == "inner" else [])
    p = 1 if preamble else 0
    n = p + size * reps
    top = [{"id": "mt", "kind": "mintrials", "n": n}] + ([con] if placement == "combinator" else [])
    if combinator == "repeat":
        blk = {"kind": "repeat", "block": inner, "constraints": top}
    else:
        blk = {"kind": "merge", "blocks": [inner], "constraints": top, "mode": "repeat", "alignment": None}
    knobs = common.draw_knobs(krng, transports=("lib",))
    return {"design": {"factors": facs, "block": blk}, "knobs": knobs, "tier": tier, "placement": placement, "combinator": combinator,
            "preamble": preamble, "kind": kind, "reps": reps}


def key(e):
    return tuple(sorted((str(k), tuple(v)) for k, v in e.items()))


def run_case(case):
    ast = case["design"]
    cap = 400 if case.get("tier") != "thorough" else 3000
    m = refsem.elaborate(ast)
    if m.status == "rejected":
        return {"outcome": "skip", "reason": "ref-rejected"}
    if m.gaps:
        return {"outcome": "skip", "reason": "doc-gap:" + m.gaps[0]}
    try:
        V = refsem.enumerate_valid(m, cap=cap, node_cap=400000)
    except refsem.TooBig:
        return {"outcome": "skip", "reason": "too-big"}
    total = sum(V.values())
    with W.SimWorld(case["run_seed"], case["knobs"]) as w:
        blk, b, exc = common.construct(w, ast)
        base = common.result_base(w, key=str((case["kind"], case["placement"], case["combinator"], case["preamble"], dast.skeleton(ast))),
                                  summary={"design": dast.describe(ast), "placement": case["placement"], "preamble": case["preamble"]})
        if exc is not None:
            base.update(outcome="skip", reason="constructor-refused:" + type(exc).__name__)
            return base
        if blk.trials_per_sample() != m.T:
            base.update(outcome="skip", reason="trial-count-differs(C16)")
            return base
        try:
            with common.time_limit(12):
                w.peer_calls_cap = total + 40
                res, exc = common.synth(w, blk, "IterateSATGen", total + 3)
        except (common.InnerTimeout, W.HarnessCap):
            base.update(outcome="skip", reason="cap")
            return base
        if exc is not None:
            base.update(outcome="skip", reason="exception(C08):" + type(exc).__name__)
            return base
        L = common.lib_multiset(m, res)
        base = common.result_base(w, key=base["key"], nontrivial=len(res) >= 2 and case["reps"] >= 2,
                                  summary={"design": dast.describe(ast), "placement": case["placement"], "preamble": case["preamble"],
                                           "reference": total, "library": len(res), "T": m.T})
        sigbase = "C26/%s/%s/%s/%s" % (case["kind"], case["placement"], case["combinator"], "preamble" if case["preamble"] else "no-preamble")
        if L != V:
            extra = sorted(k for k in L if L[k] > V.get(k, 0))
            miss = sorted(k for k in V if L.get(k, 0) < V[k])
            detail = "library %d, reference %d" % (len(res), total)
            if extra:
                bad = refsem.valid(m, dict(zip(m.design, [list(x) for x in extra[0]])))
                detail += " ; library-only %s violates %s" % (json.dumps(refsem.key_to_named(m, extra[0]))[:250], bad[:2])
            if miss:
                detail += " ; reference-only %s" % json.dumps(refsem.key_to_named(m, miss[0]))[:250]
            base.update(outcome="violation", signature=sigbase + "/" + ("library-accepts-more" if extra and not miss else ("library-accepts-fewer" if miss and not extra else "both")),
                        detail=detail + " ; windows=%s ; design=%s" % ([refsem.con_windows(m, c) for c in m.cons][:2], dast.describe(ast)))
            return base
        base["outcome"] = "ok"
        return base


def shrink_candidates(case):
    ast = case["design"]
    for a in common.design_shrinks(ast):
        if a["block"]["kind"] != ast["block"]["kind"]:
            continue
        if not any(c.get("id") == "cx" for _, c in dast.iter_constraints(a["block"])):
            continue
        c = dict(case)
        c["design"] = a
        yield c
