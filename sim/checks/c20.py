"""C20 - output conversions preserve trials and hide internal factors (DESIGN.md C20).  Runs inside the C19 history machine
because on this code base the conversions depend on the call history and the CSV path is file I/O."""
import csv
import io
import json
import math

from .. import common, dast, world as W
from . import c19

PROP = "C20"
LEVEL = "exploration"
RULE = ("same seeded call histories as C19; at any point of the history, for experiments from any earlier synthesize_trials: "
        "experiments_to_tuples/dicts and the CSV files (read back from SimFS) reproduce, per experiment and trial in order, "
        "exactly the returned values of every user-declared factor (continuous ones included); no internal (HiddenName) key or "
        "column anywhere; CSV names <prefix>_<i>.csv, one header + T rows; under fs faults the CSV sub-check of that call is "
        "skipped; non-trivial = >=1 conversion checked on >=1 non-empty experiment list; distinct = operation-kind sequence")
ASSUMPTIONS = ["dicts and CSV are compared as sets of named columns (their column order is not part of the statement); tuples, which carry no names, must follow the block's declared design order"]
BUDGET = {"quick": 300, "thorough": 900}
RUNS = {"quick": 3000, "thorough": 220000}


def gen_case(rs, tier):
    return c19.gen_case(rs, tier, "C20")


def same_val(a, b):
    if isinstance(a, float) and isinstance(b, float) and math.isnan(a) and math.isnan(b):
        return True
    return a == b


def columns_of(e, ucols):
    return {c: list(e[c]) for c in ucols if c in e}


def run_case(case):
    early, obs = c19.run_history(case)
    if early is not None:
        return early
    base = obs["base"]
    ucols = obs["ucols"]
    viols = []
    checked = 0
    for item in obs["c20"]:
        kind = item[0]
        if kind == "hidden":
            viols.append(("C20/hidden-factor-in-synthesize-output", "op %d: internal keys %r in synthesize_trials output" % (item[1], item[2])))
        elif kind == "missing-column":
            viols.append(("C20/synthesize-output-lacks-declared-factor", "op %d: declared factor(s) %r missing from synthesize_trials output" % (item[1], item[2])))
        elif kind == "dicts":
            _, oi, exps, out = item
            checked += bool(exps)
            if len(out) != len(exps):
                viols.append(("C20/dicts/experiment-count", "op %d" % oi))
                continue
            for e, rows in zip(exps, out):
                T = len(next(iter(e.values()))) if e else 0
                if len(rows) != T:
                    viols.append(("C20/dicts/row-count", "op %d: %d rows for %d trials" % (oi, len(rows), T)))
                    break
                bad = None
                for t, row in enumerate(rows):
                    if any(not isinstance(k, str) for k in row):
                        bad = ("C20/dicts/hidden-key", "op %d trial %d keys %r" % (oi, t, list(row)))
                        break
                    miss = [c for c in ucols if c in e and c not in row]
                    if miss:
                        kinds = "continuous" if all(c.startswith("K") for c in miss) else "discrete"
                        bad = ("C20/dicts/missing-column/" + kinds, "op %d: declared factor(s) %r absent from experiments_to_dicts (history %s)" % (oi, miss, obs["ops"][:oi]))
                        break
                    extra = [k for k in row if k not in ucols]
                    if extra:
                        bad = ("C20/dicts/undeclared-column", "op %d: %r" % (oi, extra))
                        break
                    wrong = [c for c in row if not same_val(row[c], e[c][t])]
                    if wrong:
                        bad = ("C20/dicts/wrong-value", "op %d trial %d column %s: %r != %r" % (oi, t, wrong[0], row[wrong[0]], e[wrong[0]][t]))
                        break
                if bad:
                    viols.append(bad)
                    break
        elif kind == "tuples":
            _, oi, exps, out = item
            checked += bool(exps)
            for e, rows in zip(exps, out):
                T = len(next(iter(e.values()))) if e else 0
                if len(rows) != T:
                    viols.append(("C20/tuples/row-count", "op %d: %d rows for %d trials" % (oi, len(rows), T)))
                    break
                want = [tuple(e[c]) for c in ucols if c in e]
                got = [tuple(r[j] for r in rows) for j in range(len(rows[0]))] if rows else []
                if len(got) < len(want):
                    miss = [c for c in ucols if c in e and tuple(e[c]) not in got]
                    kinds = "continuous" if all(c.startswith("K") for c in miss) else "discrete"
                    viols.append(("C20/tuples/missing-column/" + kinds, "op %d: tuples have %d entries, %d declared factors; missing %r (history %s)" % (oi, len(got), len(want), miss, obs["ops"][:oi])))
                    break
                if sorted(map(repr, got)) != sorted(map(repr, want)):
                    viols.append(("C20/tuples/wrong-values", "op %d: columns %r != %r" % (oi, got[:3], want[:3])))
                    break
                # a tuple carries no names: position is the only way to tell which value belongs to which factor, and the
                # documented position is the block's declared design order (whatever the key order of the experiment dict)
                if list(map(repr, got)) != list(map(repr, want)):
                    viols.append(("C20/tuples/column-order", "op %d: tuple positions do not follow the declared design order %r: got columns %r, declared order gives %r" % (
                        oi, [c for c in ucols if c in e], got[:4], want[:4])))
                    break
        elif kind == "csv":
            _, oi, exps, prefix, files, faulted = item
            if faulted:
                # an injected I/O error may cost the file it hit (the function reports it and goes on); it must not cost the
                # files of the other experiments of the same call: at most one file per fired fault is missing or incomplete
                nbad = 0
                for i, e in enumerate(exps):
                    name = "%s_%d.csv" % (prefix, i)
                    T = len(next(iter(e.values()))) if e else 0
                    rows = list(csv.reader(io.StringIO(files[name]))) if name in files else None
                    good = rows is not None and len(rows) == T + 1 and all(c in rows[0] for c in ucols if c in e)
                    nbad += 0 if good else 1
                if isinstance(faulted, int) and not isinstance(faulted, bool) and nbad > faulted:
                    viols.append(("C20/csv/io-error-loses-other-experiments", "op %d: %d injected I/O error(s), but %d of %d experiment files are missing or incomplete (files: %s)" % (
                        oi, faulted, nbad, len(exps), sorted(files))))
                continue
            checked += bool(exps)
            for i, e in enumerate(exps):
                name = "%s_%d.csv" % (prefix, i)
                if name not in files:
                    viols.append(("C20/csv/file-missing", "op %d: %s not written (files: %s)" % (oi, name, sorted(files))))
                    break
                rows = list(csv.reader(io.StringIO(files[name])))
                T = len(next(iter(e.values()))) if e else 0
                if len(rows) != T + 1:
                    viols.append(("C20/csv/row-count", "op %d: %d rows for %d trials" % (oi, len(rows), T)))
                    break
                header = rows[0]
                miss = [c for c in ucols if c in e and c not in header]
                if miss:
                    kinds = "continuous" if all(c.startswith("K") for c in miss) else "discrete"
                    viols.append(("C20/csv/missing-column/" + kinds, "op %d: header %r lacks %r" % (oi, header, miss)))
                    break
                extra = [c for c in header if c not in ucols]
                if extra:
                    viols.append(("C20/csv/undeclared-column", "op %d: %r" % (oi, extra)))
                    break
                ok = True
                for t in range(T):
                    for j, c in enumerate(header):
                        if rows[t + 1][j] != str(e[c][t]):
                            viols.append(("C20/csv/wrong-value", "op %d row %d column %s: %r != %r" % (oi, t, c, rows[t + 1][j], str(e[c][t]))))
                            ok = False
                            break
                    if not ok:
                        break
                if not ok:
                    break
    base["nontrivial"] = checked >= 1
    viol = common.pick_violation(PROP, viols)
    if viol:
        base.update(outcome="violation", signature=viol[0], detail=viol[1] + " ; design=" + dast.describe(obs["ast"]))
        return base
    base["outcome"] = "ok"
    return base


def shrink_candidates(case):
    yield from c19.shrink_candidates(case)
