"""C27 - solver input and output text is faithful (DESIGN.md C27): protocol conformance over the recorded file/peer history."""
import json
from collections import Counter

from sweetpea._internal.core.generate import utility as M_utility
import sys
import sweetpea._internal.core.generate.sample_non_uniform   # noqa
import sweetpea._internal.core.generate.sample_uniform       # noqa
M_snu = sys.modules["sweetpea._internal.core.generate.sample_non_uniform"]
M_su = sys.modules["sweetpea._internal.core.generate.sample_uniform"]
from sweetpea._internal.core.generate.tools import unigen as M_unigen

from .. import common, dast, gen, world as W

PROP = "C27"
LEVEL = "exploration"
RULE = ("seeded designs x formula-based strategy x transport (in-process fake, fake CLI) x peer policy; at every peer invocation "
        "the file text in SimFS, what the library's parser delivered to the peer, the model the peer chose and what the library "
        "says the peer answered are recorded, plus the CNF object the library meant to write; oracle: strict DIMACS reading of "
        "the text (header variables >= max variable, header clause count = clauses, clause multiset = intended CNF + blocking "
        "clauses so far, 'c ind' = 1..support once each), parser output = text, claimed solution = peer model, successive files "
        "differ by exactly one clause = negated previous support assignment; fault runs: EIO on read / ENOSPC on rewrite; "
        "non-trivial = >=2 rounds (or >=1 sampler call); distinct = (design skeleton, strategy, transport, peer)")
ASSUMPTIONS = ["strict DIMACS reading: 'p cnf V C', clauses are zero-terminated, comment lines start with 'c'",
               "the fake CLI prints models in real CryptoMiniSat format (several 'v' lines, terminating 0)"]
BUDGET = {"quick": 300, "thorough": 900}
RUNS = {"quick": 3000, "thorough": 300000}


def big_support_case(rs, tier):
    """Text-format behaviour that depends on SIZE (line wrapping, chunking of 'c ind' lines, long clauses): one 2- or
    3-level factor and a MinimumTrials that makes the sampling set 100 to 1 500 variables long, two or three rounds."""
    brng = W.stream(rs, "big-design")
    L = brng.choice([2, 2, 3])
    n = brng.choice([55, 130, 260, 505, 505])
    A = {"id": "f0", "kind": "basic", "name": "A", "levels": [["v%d" % i, 1] for i in range(L)]}
    cons = [{"id": "mt", "kind": "mintrials", "n": n}]
    if brng.random() < 0.5:
        cons.append({"id": "p0", "kind": "pin", "index": -1, "target": ["f0", "v0"], "spelling": "tuple"})
    ast = {"factors": [A], "block": {"kind": "cross", "design": ["f0"], "crossing": ["f0"], "constraints": cons, "rcc": True}}
    knobs = common.draw_knobs(W.stream(rs, "knobs"), transports=("lib", "cli"))
    knobs["peer"] = "native"       # the walk/lexmin policies cost one solve per variable, the samplers hit their conflict limit
    return {"design": ast, "knobs": knobs, "strategy": "IterateSATGen", "n": brng.choice([2, 3]),
            "faults": [], "tier": tier, "sweep": False, "big": True, "timeout": 120}


def gen_case(rs, tier):
    if W.stream(rs, "big").random() < (0.01 if tier == "thorough" else 0.004):
        return big_support_case(rs, tier)
    rng = W.stream(rs, "design")
    krng = W.stream(rs, "knobs")
    cfg = gen.swarm(krng, tier)
    ast = gen.gen_design(rng, cfg, tier)
    if ast is None:
        return None
    knobs = common.draw_knobs(krng, transports=("lib", "cli"))
    faults = []
    if krng.random() < 0.2:
        frng = W.stream(rs, "faults")
        faults = [{"kind": frng.choice(["fs.eio", "fs.enospc"]), "at": frng.randint(0, 10), "arg": frng.choice([0.0, 0.5, 0.9])}]
    case = {"design": ast, "knobs": knobs, "strategy": krng.choice(["IterateSATGen", "IterateSATGen", "CMSGen", "UniGen"]),
            "n": krng.choice([2, 4, 4, 6]), "faults": faults}
    case["tier"] = tier
    case["sweep"] = W.stream(rs, "sweep").random() < (0.15 if tier == "thorough" else 0.04)
    if case["sweep"]:
        case["timeout"] = 150        # one workload, run once per fault placement
    return case


def strict_dimacs(text):
    """Returns (errors, header(V,C), clauses, ind_lists).  A clause ends at its 0, not at the end of the line (DIMACS allows
    a clause to continue on the next line), so line breaks inside a clause are not an error; a 0 in the middle of a line, a
    clause that never ends, or a comment/header line inside a clause are."""
    errors = []
    header = None
    clauses = []
    ind = []
    cur = []
    lines = text.split("\n")
    for ln, line in enumerate(lines):
        s = line.strip()
        if not s:
            continue
        if s.startswith("c ind"):
            if cur:
                errors.append("comment-inside-clause")
            toks = s.split()[2:]
            if not toks or toks[-1] != "0":
                errors.append("ind-line-not-terminated")
            ind.append([int(x) for x in toks if x != "0"])
            continue
        if s.startswith("c"):
            if cur:
                errors.append("comment-inside-clause")
            continue
        if s.startswith("p"):
            parts = s.split()
            if header is not None:
                errors.append("second-header")
            if cur:
                errors.append("header-inside-clause")
            if len(parts) != 4 or parts[1] != "cnf":
                errors.append("bad-header")
            else:
                header = (int(parts[2]), int(parts[3]))
            continue
        toks = s.split()
        try:
            lits = [int(x) for x in toks]
        except ValueError:
            errors.append("non-integer-token")
            continue
        if 0 in lits[:-1]:
            errors.append("zero-inside-line")
        for x in lits:
            if x == 0:
                clauses.append(cur)
                cur = []
            else:
                cur.append(x)
    if cur:
        errors.append("clause-not-zero-terminated")
        clauses.append(cur)
    if header is None:
        errors.append("no-header")
    return errors, header, clauses, ind


def canon(clauses):
    return Counter(tuple(sorted(c)) for c in clauses)


def run_one(case):
    ast = case["design"]
    strat = case["strategy"]
    with W.SimWorld(case["run_seed"], case["knobs"], case.get("faults")) as w:
        w.peer_calls_cap = 60
        rec = {"intended": None, "support": None, "claimed": [], "parsed": [], "built": []}
        orig_combine = M_utility.combine_cnf_with_requests
        orig_solve = M_snu.cryptominisat_solve
        orig_build = M_su.build_solution
        orig_parse = M_unigen.parse_cnf_file

        def combine(initial_cnf, fresh, support, reqs):
            cnf = orig_combine(initial_cnf, fresh, support, reqs)
            rec["intended"] = [[int(v) for v in clause] for clause in cnf]
            rec["support"] = support
            return cnf

        def solve(filename, use_docker=False):
            r = orig_solve(filename, use_docker)
            rec["claimed"].append(None if r is None else list(r))
            return r

        def build(line):
            r = orig_build(line)
            rec["built"].append((line, list(r.assignment)))
            return r

        def parse(input_file):
            r = orig_parse(input_file)
            rec["parsed"].append((w.fs.files.get(str(input_file)), [list(c) for c in r[0]], list(r[1]), r[2]))
            return r

        w._set(M_utility, "combine_cnf_with_requests", combine)
        w._set(M_snu, "cryptominisat_solve", solve)
        w._set(M_su, "build_solution", build)
        M_ugs = sys.modules.get("sweetpea._internal.sampling_strategy.unigen")
        orig_su = getattr(M_ugs, "sample_uniform", None)
        if strat == "UniGen" and callable(orig_su):
            def su(*a, **k):
                r = orig_su(*a, **k)
                rec.setdefault("returned", []).append([list(x.assignment) for x in r])
                return r
            w._set(M_ugs, "sample_uniform", su)
        w._set(M_unigen, "parse_cnf_file", parse)
        # snapshot of the file at every peer invocation
        texts = []
        orig_record = w.record_peer_input

        def record(transport, clauses, ind):
            cnf_files = [k for k in w.fs.files if k.endswith(".cnf")]
            texts.append(w.fs.files[cnf_files[0]] if len(cnf_files) == 1 else None)
            orig_record(transport, clauses, ind)
        w.record_peer_input = record

        blk, b, exc = common.construct(w, ast)
        if exc is not None:
            return common.result_base(w, outcome="skip", reason="constructor-refused:" + type(exc).__name__)
        try:
            with common.time_limit(8 if not case.get("big") else 100):
                res, exc = common.synth(w, blk, strat, case["n"])
        except (common.InnerTimeout, W.HarnessCap):
            return common.result_base(w, outcome="skip", reason="cap")
        faulted = bool(w.fault_fired)
        viols = []
        rounds = len(w.peer_inputs)
        base = common.result_base(w, key=str((dast.skeleton(ast), strat, case["knobs"]["transport"], case["knobs"]["peer"])),
                                  nontrivial=rounds >= (2 if strat == "IterateSATGen" else 1),
                                  summary={"design": dast.describe(ast), "strategy": strat, "transport": case["knobs"]["transport"],
                                           "peer": case["knobs"]["peer"], "rounds": rounds, "faults": case.get("faults"),
                                           "returned": None if res is None else len(res)})
        if exc is not None and not faulted:
            base.update(outcome="skip", reason="exception(C08):" + type(exc).__name__)
            return base
        if rec["intended"] is None:
            base.update(outcome="skip", reason="library-refused-design")
            return base
        intended = canon(rec["intended"])
        support = rec["support"]
        maxvar_intended = max([abs(l) for c in rec["intended"] for l in c] + [0])
        blocking = []
        prev_text = None
        for r in range(rounds):
            text = texts[r]
            transport, peer_clauses, peer_ind = w.peer_inputs[r]
            if text is None:
                continue
            errors, header, clauses, ind = strict_dimacs(text)
            for e in errors:
                viols.append(("C27/text/" + e, "round %d (%s): %s ; first lines: %r" % (r, transport, e, text[:200])))
            if header is not None:
                used = max([abs(l) for c in clauses for l in c] + [0])
                if header[0] < used:
                    viols.append(("C27/text/header-variables<max-variable", "round %d: header declares %d variables, formula uses variable %d" % (r, header[0], used)))
                if header[1] != len(clauses):
                    viols.append(("C27/text/header-clause-count", "round %d: header says %d clauses, text has %d" % (r, header[1], len(clauses))))
            want = intended + canon(blocking)
            got = canon(clauses)
            if got != want:
                miss = list((want - got).elements())[:2]
                extra = list((got - want).elements())[:2]
                viols.append(("C27/text/clauses-differ-from-intended/%s" % ("missing" if miss and not extra else ("extra" if extra and not miss else "both")),
                              "round %d: missing %r extra %r (intended %d + %d blocking)" % (r, miss, extra, sum(intended.values()), len(blocking))))
            flat = [v for chunk in ind for v in chunk]
            if sorted(flat) != list(range(1, support + 1)):
                viols.append(("C27/text/sampling-set", "round %d: 'c ind' lists %r..., support is 1..%d" % (r, flat[:12], support)))
            if any(len(chunk) > 10 for chunk in ind):
                viols.append(("C27/text/ind-line-too-long", "round %d" % r))
            # what the library's parser handed to the peer
            if transport in ("lib", "pycmsgen", "pyunigen"):
                if [list(c) for c in peer_clauses] != clauses:
                    viols.append(("C27/parser/clauses-differ-from-text", "round %d (%s): parser delivered %d clauses, text has %d" % (r, transport, len(peer_clauses), len(clauses))))
                if peer_ind is not None and sorted(peer_ind) != sorted(flat):
                    viols.append(("C27/parser/sampling-set-differs-from-text", "round %d: %r vs %r" % (r, peer_ind[:12], flat[:12])))
            # successive files
            if prev_text is not None and strat == "IterateSATGen":
                pe, ph, pc, pi = strict_dimacs(prev_text)
                if clauses[:len(pc)] != pc or len(clauses) != len(pc) + 1:
                    viols.append(("C27/rewrite/not-exactly-one-more-clause", "round %d: %d clauses after %d" % (r, len(clauses), len(pc))))
                if pi != ind:
                    viols.append(("C27/rewrite/sampling-set-changed", "round %d" % r))
            prev_text = text
            if strat == "IterateSATGen":
                model = w.peer_models[r] if r < len(w.peer_models) else None
                claimed = rec["claimed"][r] if r < len(rec["claimed"]) else None
                if model is not None and claimed is not None:
                    want_sol = [v if model[v] else -v for v in range(1, len(model))]
                    if claimed and claimed[-1] == 0:
                        claimed = claimed[:-1]      # the DIMACS terminator of the 'v' lines is not a literal
                    if claimed != want_sol:
                        viols.append(("C27/output/claimed-solution-differs-from-peer-model/" + transport,
                                      "round %d: peer model has %d literals, library parsed %d; first difference at %s" % (
                                          r, len(want_sol), len(claimed), next((i for i, (a, b_) in enumerate(zip(claimed, want_sol)) if a != b_), "length"))))
                    blocking.append([-l for l in want_sol[:support]])
        for (text, pclauses, pind, pnv) in rec["parsed"]:
            if text is None:
                continue
            errors, header, clauses, ind = strict_dimacs(text)
            if pclauses != clauses:
                viols.append(("C27/parser/parse_cnf_file-clauses", "parse_cnf_file returned %d clauses, text has %d" % (len(pclauses), len(clauses))))
            if pind != sorted(set(v for ch in ind for v in ch)):
                viols.append(("C27/parser/parse_cnf_file-sampling-set", "%r" % pind[:12]))
            if header and pnv != header[0]:
                viols.append(("C27/parser/parse_cnf_file-num-vars", "%r vs %r" % (pnv, header[0])))
        if strat in ("CMSGen", "UniGen") and rec["built"]:
            # each solution line the library decodes must be one sample the peer produced, literal for literal
            for line, assignment in rec["built"]:
                toks = line.replace("v", "").split()
                lits = [int(t.split(":")[0]) for t in toks]
                if lits and lits[-1] == 0:
                    lits = lits[:-1]
                if assignment != lits:
                    viols.append(("C27/output/build_solution", "line %r -> %r" % (line[:80], assignment[:12])))
                    break
        if strat == "UniGen" and rec.get("returned") and not case.get("faults"):
            # what the reader hands on is the peer's samples, all of them, in order, and nothing else the peer printed
            got = [a for r in rec["returned"] for a in r]
            want = [list(smp) for smp in w.unigen_samples]
            if got != want:
                viols.append(("C27/output/samples-read-differ-from-samples-written",
                              "the sampler wrote %d samples, the reader returned %d; first difference at %s%s"
                              % (len(want), len(got), next((i for i, (x, y) in enumerate(zip(got, want)) if x != y), min(len(got), len(want))),
                                 " ; %d solutions were listed before the samples" % w.counters.get("peer.unigen-prelisted", 0)
                                 if w.counters.get("peer.unigen-prelisted") else "")))
        viol = common.pick_violation(PROP, viols)
        if viol:
            base.update(outcome="violation", signature=viol[0], detail=viol[1] + " ; strategy=%s transport=%s ; design=%s" % (strat, case["knobs"]["transport"], dast.describe(ast)))
            return base
        base["outcome"] = "ok"
        return base


SWEEP_KINDS = ['fs.eio', 'fs.enospc']


def run_case(case):
    """A sweep case runs the workload fault-free and then once per (operation index x fault kind) placement."""
    if case.get("sweep"):
        return common.fault_sweep(run_one, case, SWEEP_KINDS, cap=160 if case.get("tier") == "thorough" else 60)
    return run_one(case)


def shrink_candidates(case):
    yield from common.shrink_case(case)
    if case["n"] > 2:
        c = dict(case)
        c["n"] = 2
        yield c
