"""C08 - synthesis never fails internally on an accepted design (DESIGN.md section 6, C08).  Fault-free only."""
from .. import common, dast, gen, refsem, world as W

PROP = "C08"
LEVEL = "exploration"
RULE = ("seeded designs accepted by the block constructor; synthesize_trials with IterateSATGen, RandomGen, CMSGen, UniGen "
        "(n<=3) under every legal peer behaviour/transport; any escaping exception is a violation; non-trivial = constructor "
        "accepted and >=2 strategies ran to completion or raised; distinct = (design skeleton, peer, transport)")
ASSUMPTIONS = ["fake peers stay within the solver contract (genuine models, real output formats)",
               "real pyunigen terminates the process on an unsatisfiable formula; the fake answers 'no samples' instead"]
BUDGET = {"quick": 300, "thorough": 900}
RUNS = {"quick": 3000, "thorough": 400000}
STRATS = ["IterateSATGen", "RandomGen", "CMSGen", "UniGen"]


def large_design_case(rs, tier):
    """A design of realistic size for RandomGen: two crossed factors of 15-40 levels and two or three uncrossed 10-level
    factors, i.e. 300-1200 trials and a solution count of one to eight thousand digits.  Whatever is done with such
    numbers besides arithmetic (formatting, float conversion, indexing) must not make the call fail."""
    lrng = W.stream(rs, "large-design")
    la, lb = lrng.choice([(20, 15), (30, 30), (30, 30), (40, 30)])
    facs = [{"id": "f0", "kind": "basic", "name": "A", "levels": [["a%d" % i, 1] for i in range(la)]},
            {"id": "f1", "kind": "basic", "name": "B", "levels": [["b%d" % i, 1] for i in range(lb)]}]
    for k in range(lrng.choice([2, 3, 3])):
        facs.append({"id": "f%d" % (k + 2), "kind": "basic", "name": "U%d" % k, "levels": [["u%d_%d" % (k, i), 1] for i in range(10)]})
    ast = {"factors": facs, "block": {"kind": "cross", "design": [f["id"] for f in facs], "crossing": ["f0", "f1"], "constraints": [], "rcc": True}}
    knobs = common.draw_knobs(W.stream(rs, "knobs"))
    knobs["rng_mode"] = "random"
    return {"design": ast, "knobs": knobs, "n": lrng.choice([1, 2]), "strategies": ["RandomGen"], "large": True, "timeout": 120}


def gen_case(rs, tier):
    if W.stream(rs, "large").random() < 0.004:
        return large_design_case(rs, tier)
    rng = W.stream(rs, "design")
    krng = W.stream(rs, "knobs")
    cfg = gen.swarm(krng, tier)
    ast = gen.gen_design(rng, cfg, tier)
    if ast is None:
        return None
    knobs = common.draw_knobs(krng)
    knobs["env_check"] = krng.random() < 0.1
    case = {"design": ast, "knobs": knobs, "n": krng.choice([0, 1, 2, 3]), "strategies": list(STRATS)}
    irng = W.stream(rs, "interleave")
    if irng.random() < 0.12:
        # two callers in one process: while the first call of the named strategy waits for its solver, a second caller runs a
        # whole synthesize_trials of its own (on its own block).  Neither may fail because of the other.
        case["interleave"] = {"during": irng.choice(["IterateSATGen", "IterateSATGen", "CMSGen", "UniGen"]),
                              "other": irng.choice(["IterateSATGen", "IterateSATGen", "CMSGen", "RandomGen"]), "n": irng.choice([1, 2])}
    return case


def features(ast, m):
    """Narrow structural facts that go into the signature, so that a different failure is a different signature."""
    out = []
    T = m.T if m is not None and m.T else None
    for _, c in dast.iter_constraints(ast["block"]):
        if c["kind"] in ("atleast", "exactlyrow") and T is not None and c["k"] >= T:
            out.append("%s:k>=T" % c["kind"])
    return sorted(set(out))


def run_case(case):
    ast = case["design"]
    try:
        m = refsem.elaborate(ast) if not case.get("large") else None
    except Exception:
        m = None
    with W.SimWorld(case["run_seed"], case["knobs"]) as w:
        w.peer_calls_cap = 100
        blk, b, exc = common.construct(w, ast)
        if exc is not None:
            return common.result_base(w, outcome="skip", reason="constructor-refused:" + type(exc).__name__)
        ran = 0
        viols = []
        il = case.get("interleave")
        second = {}
        if il:
            blk2, _, exc2 = common.construct(w, ast)        # the second caller's own block (same design, own objects)
            if exc2 is not None:
                il = None
        for strat in case["strategies"]:
            w.rng.draws = 0
            w.draw_cap = 4000 if not case.get("large") else 2_000_000
            if case.get("large"):
                w.rng.track = False
                w.log_cap = 2000
            if il and strat == il["during"] and not second:
                def other_caller():
                    w.peer_calls_cap = (w.peer_calls_cap or 0) + 50
                    second["res"], second["exc"] = common.synth(w, blk2, il["other"], il["n"])
                second["armed"] = True
                w.on_solve = other_caller
            try:
                with common.time_limit(3 if not case.get("large") else 90):
                    res, exc = common.synth(w, blk, strat, case["n"])
            except common.InnerTimeout:
                w.log.append(("op", strat, "inner-timeout"))
                w.count("inner-timeout")
                continue
            except W.HarnessCap:
                w.log.append(("op", strat, "cap"))
                w.count("rejection-cap")
                continue
            ran += 1
            if exc is None:
                if not isinstance(res, list):
                    viols.append(("C08/non-list-result", "%s returned %r" % (strat, type(res))))
                continue
            if case["knobs"]["env_check"] and isinstance(exc, RuntimeError) and "mismatches" in str(exc):
                # the library's own checker vetoed its own output: only a C08 matter when the output was valid
                continue
            frame, cls = common.innermost_frame_info(exc)
            feats = []
            if isinstance(exc, KeyError) and exc.args:
                k = exc.args[0]
                feats.append("key=" + ("derived-factor" if type(k).__name__ == "DerivedFactor" else type(k).__name__))
            sig = "C08/%s@%s%s/%s%s" % (type(exc).__name__, frame, ("[" + cls + "]") if cls else "",
                                       "sat" if strat != "RandomGen" else "random", ("/" + ",".join(feats)) if feats else "")
            viols.append((sig, "%s raised %s: %s" % (strat, type(exc).__name__, str(exc)[:200])))
        w.on_solve = None
        if second.get("exc") is not None:
            frame, cls = common.innermost_frame_info(second["exc"])
            viols.append(("C08/%s@%s%s/second-caller" % (type(second["exc"]).__name__, frame, ("[" + cls + "]") if cls else ""),
                          "a second caller's %s, run while the first waited for its solver, raised %s: %s" % (
                              il["other"], type(second["exc"]).__name__, str(second["exc"])[:200])))
        if il and "res" in second:
            viols = [(sg + ("/with-second-caller" if "second-caller" not in sg else ""), dt) for sg, dt in viols]
        base = common.result_base(w, key=str((dast.skeleton(ast), case["knobs"]["peer"], case["knobs"]["transport"])),
                                  nontrivial=ran >= 2,
                                  summary={"design": dast.describe(ast), "n": case["n"], "peer": case["knobs"]["peer"],
                                           "transport": case["knobs"]["transport"], "ran": ran})
        viol = common.pick_violation(PROP, viols)
        if viol:
            base.update(outcome="violation", signature=viol[0], detail=viol[1] + " ; design=" + dast.describe(ast))
            return base
        base["outcome"] = "ok"
        return base


def shrink_candidates(case):
    if case.get("interleave"):
        c = dict(case)
        c["interleave"] = None
        yield c
    yield from common.shrink_case(case)
    if len(case["strategies"]) > 1:
        for s in case["strategies"]:
            c = dict(case)
            c["strategies"] = [s]
            yield c
