"""SimWorld: owns every seam of sweetpea for one run (DESIGN.md section 3).

One run = one SimWorld built from one seed string.  All patches are installed by __enter__ and removed
by __exit__.  Every source of nondeterminism the library meets (solver/sampler peer, file channel, uuid,
PRNGs, stdout, environment) is replaced by an object that draws from a named stream of the run seed and
appends to the event log.
"""
import errno
import hashlib
import io
import os
import pathlib
import random
import sys
import warnings
from fractions import Fraction

import pycryptosat as _real_pycryptosat
import pycmsgen as _real_pycmsgen
import pyunigen as _real_pyunigen

from sweetpea._internal.core.generate.tools import cryptominisat as M_cms
from sweetpea._internal.core.generate.tools import unigen as M_unigen
from sweetpea._internal.core.generate import utility as M_utility
from sweetpea._internal.core.generate import sample_ilp as M_ilp
from sweetpea._internal.sampling_strategy import random as M_random
from sweetpea._internal import distribution as M_dist
from sweetpea._internal import main as M_main


class SimFault(Exception):
    """Marker mix-in: exceptions injected by the simulator carry .injected = True"""


class HarnessCap(BaseException):       # BaseException: the library's blanket 'except Exception' must not swallow it
    pass


# A search inside an engine's C code cannot be interrupted by the per-case alarm, so every real engine the fakes use is
# given a conflict limit (deterministic, unlike a time limit); reaching it ends the run as a skipped case (HarnessCap).
CMSGEN_CONFL_LIMIT = 100000


def stream(seed, name):
    return random.Random(int(hashlib.sha256(("%s/%s" % (seed, name)).encode()).hexdigest(), 16))


def _sha1(x):
    if isinstance(x, str):
        x = x.encode()
    return hashlib.sha1(x).hexdigest()[:12]


# ---------------------------------------------------------------------------
# DIMACS (harness' own lenient parser: accepts what the real engines accept)


def parse_dimacs_lenient(text):
    clauses = []
    ind = []
    header = None
    cur = []
    for line in text.splitlines():
        s = line.strip()
        if not s:
            continue
        if s.startswith("c ind"):
            ind.extend(int(x) for x in s.split()[2:] if x != "0")
            continue
        if s.startswith("c"):
            continue
        if s.startswith("p"):
            parts = s.split()
            header = (int(parts[2]), int(parts[3]))
            continue
        for tok in s.split():
            v = int(tok)
            if v == 0:
                clauses.append(cur)
                cur = []
            else:
                cur.append(v)
    if cur:
        clauses.append(cur)
    return header, clauses, ind


# ---------------------------------------------------------------------------
# SimFS


class SimFile(io.StringIO):
    def __init__(self, fs, name, mode, initial=""):
        super().__init__()
        self._fs, self._name, self._mode = fs, name, mode
        if "r" in mode:
            super().write(initial)
            self.seek(0)
        elif "a" in mode:
            self._prefix = initial
        self._closed_once = False

    def close(self):
        if not self._closed_once:
            self._closed_once = True
            if "w" in self._mode or "a" in self._mode or "+" in self._mode:
                # ("r+": the file is patched in place - read, seek, overwrite, append - and written back whole on close)
                data = self.getvalue()
                try:
                    if "a" in self._mode:
                        self._fs.append(self._name, data)
                    else:
                        self._fs.write(self._name, data)
                finally:
                    super().close()
                return
        super().close()

    def __exit__(self, *a):
        self.close()
        return False


class SimFS:
    """In-memory cwd.  Counts operations, keeps a write history per file, injects I/O faults by operation index."""

    def __init__(self, world):
        self.world = world
        self.files = {}
        self.history = {}       # name -> [content after each write]
        self.nops = 0
        self.faults = {}        # op index -> (kind, arg)
        self.removed = []

    def _op(self, kind, name):
        i = self.nops
        self.nops += 1
        self.world.op_trace["fs"].append(kind)
        f = self.faults.pop(i, None)
        if f is not None:
            self.world.fired(f[0], "%s:%s" % (kind, _suffix(name)))
        return f

    def write(self, name, data):
        f = self._op("write", name)
        if f and f[0] == "fs.eacces" and name not in self.files:
            self.world.log.append(("fs.write", _suffix(name), "EACCES"))
            raise _oserr(errno.EACCES, name)
        if f and f[0] == "fs.enospc":
            k = int(len(data) * f[1])
            self.files[name] = data[:k]
            self.history.setdefault(name, []).append(data[:k])
            self.world.log.append(("fs.write", _suffix(name), "ENOSPC", k))
            raise _oserr(errno.ENOSPC, name)
        self.files[name] = data
        self.history.setdefault(name, []).append(data)
        self.world.log.append(("fs.write", _suffix(name), len(data), _sha1(data)))
        return len(data)

    def append(self, name, data):
        f = self._op("append", name)
        if f and f[0] == "fs.eacces" and name not in self.files:
            raise _oserr(errno.EACCES, name)
        old = self.files.get(name, "")
        if f and f[0] == "fs.enospc":
            k = int(len(data) * f[1])
            self.files[name] = old + data[:k]
            self.history.setdefault(name, []).append(self.files[name])
            self.world.log.append(("fs.append", _suffix(name), "ENOSPC", k))
            raise _oserr(errno.ENOSPC, name)
        self.files[name] = old + data
        self.history.setdefault(name, []).append(self.files[name])
        self.world.log.append(("fs.append", _suffix(name), len(data), _sha1(data)))

    def read(self, name):
        f = self._op("read", name)
        if f and f[0] == "fs.eio":
            self.world.log.append(("fs.read", _suffix(name), "EIO"))
            raise _oserr(errno.EIO, name)
        if f and f[0] == "fs.vanish":
            self.files.pop(name, None)
        if name not in self.files:
            self.world.log.append(("fs.read", _suffix(name), "ENOENT"))
            raise FileNotFoundError(errno.ENOENT, "No such file (sim)", name)
        self.world.log.append(("fs.read", _suffix(name), len(self.files[name])))
        return self.files[name]

    def exists(self, name):
        return name in self.files

    def unlink(self, name):
        self.nops += 1
        self.world.op_trace["fs"].append("unlink")
        if name not in self.files:
            raise FileNotFoundError(errno.ENOENT, "No such file (sim)", name)
        del self.files[name]
        self.removed.append(name)
        self.world.log.append(("fs.unlink", _suffix(name)))

    def open(self, name, mode="r", *a, **k):
        name = str(name)
        if "r" in mode:
            return SimFile(self, name, mode, self.read(name))
        if "a" in mode:
            return SimFile(self, name, mode, "")
        if "w" in mode:
            f = self.faults.get(self.nops)
            if f and f[0] == "fs.eacces" and name not in self.files:
                self._op("create", name)
                raise _oserr(errno.EACCES, name)
            return SimFile(self, name, mode)
        raise ValueError(mode)


_UUID_RE = None


def _suffix(name):
    """File names as they enter the event log: a real uuid4 (which only appears when the library bypasses the simulated
    uuid source) would make the digest differ from process to process, so it is logged as '<uuid>'."""
    global _UUID_RE
    if _UUID_RE is None:
        import re
        _UUID_RE = re.compile(r"[0-9a-f]{8}-[0-9a-f]{4}-[0-9a-f]{4}-[0-9a-f]{4}-[0-9a-f]{12}")
    return _UUID_RE.sub("<uuid>", str(name))


def _oserr(code, name):
    e = OSError(code, os.strerror(code) + " (injected)", name)
    e.injected = True
    return e


# ---------------------------------------------------------------------------
# peers


class PeerPolicy:
    """Chooses which model of a clause set the 'solver' returns.  The SAT search inside is real pycryptosat,
    used as a library by the harness; what is simulated is the *choice* among models and the transport."""

    def __init__(self, world, policy):
        self.world = world
        self.policy = policy
        self.rng = world.stream("peer")

    def solve(self, clauses, nvars=None):
        """Returns None (UNSAT) or a list model[1..n] of bools, n = max variable mentioned (or nvars)."""
        w = self.world
        w.count("peer.solve")
        if w.peer_calls_cap is not None and w.counters["peer.solve"] > w.peer_calls_cap:
            raise HarnessCap("peer call cap exceeded")
        n = max([abs(l) for c in clauses for l in c] + [nvars or 0])
        pol = self.policy
        if pol == "cmsgen":
            s = _real_pycmsgen.Solver(seed=self.rng.randrange(1 << 30), confl_limit=CMSGEN_CONFL_LIMIT)
            for c in clauses:
                s.add_clause(c)
            sat, sol = s.solve()
            if sat is None:
                raise HarnessCap("sampler conflict limit")
            if not sat:
                return None
            model = [None] + [bool(sol[v]) if v < len(sol) else False for v in range(1, n + 1)]
            return model
        s = _real_pycryptosat.Solver(confl_limit=300000)     # deterministic bound: a C-level search cannot be interrupted
        for c in clauses:
            s.add_clause(c)
        sat, sol = s.solve()
        if sat is None:
            raise HarnessCap("solver conflict limit")
        if not sat:
            return None
        sol = list(sol) + [False] * (n + 1 - len(sol))
        if pol == "native":
            return [None] + [bool(x) for x in sol[1:n + 1]]
        order = list(range(1, n + 1))
        if pol == "walk":
            self.rng.shuffle(order)
        if n > 400:
            order = order[:400]      # bound the cost on big formulas; the remaining variables keep the solver's values
        assumptions = []
        cur = sol
        for v in order:
            if pol == "lexmin":
                want = False
            elif pol == "lexmax":
                want = True
            else:
                want = self.rng.random() < 0.5
            if bool(cur[v]) == want:
                assumptions.append(v if want else -v)
                continue
            sat2, sol2 = s.solve(assumptions + [v if want else -v])
            if sat2 is None:
                raise HarnessCap("solver conflict limit")
            if sat2:
                cur = list(sol2) + [False] * (n + 1 - len(sol2))
                assumptions.append(v if want else -v)
            else:
                assumptions.append(-v if want else v)
        return [None] + [bool(x) for x in cur[1:n + 1]]


def enumerate_models(clauses, nvars, cap, project=None):
    """All models over variables 1..nvars (or projected onto `project`) in canonical (sorted) order."""
    s = _real_pycryptosat.Solver(confl_limit=300000)
    for c in clauses:
        s.add_clause(c)
    vars_ = list(project) if project is not None else list(range(1, nvars + 1))
    out = []
    while True:
        sat, sol = s.solve()
        if sat is None:
            raise HarnessCap("solver conflict limit")
        if not sat:
            break
        sol = list(sol) + [False] * (nvars + 1 - len(sol))
        m = tuple(bool(sol[v]) for v in vars_)
        out.append(m)
        if len(out) > cap:
            raise HarnessCap("model enumeration cap")
        s.add_clause([(-v if sol[v] else v) for v in vars_])
    out.sort()
    return vars_, out


class FakePycryptosat:
    """Stands in for the `pycryptosat` module inside tools/cryptominisat.py."""

    def __init__(self, world):
        self.world = world
        outer = self

        class Solver:
            def __init__(self, *a, **k):
                self.clauses = []
                # a solver that was given a conflict or time limit may legitimately answer "unknown" on a formula it
                # finds hard; the library as shipped passes no limit, so this only matters for a change that adds one
                self.limited = any(k.get(x) is not None for x in ("confl_limit", "time_limit"))
                outer.world.count("peer.new")

            def add_clause(self, clause):
                f = outer.world.peer_fault("add_clause")
                if f:
                    raise f
                self.clauses.append(list(clause))

            def solve(self, assumptions=None):
                w = outer.world
                w.run_interleaved()
                f = w.peer_fault("solve")
                if f == "unknown":
                    w.log.append(("peer.solve", "lib", "UNKNOWN"))
                    return (None, None)
                if f:
                    raise f
                if self.limited and w.peer.rng.random() < 0.2:
                    w.count("peer.limit-reached")
                    w.log.append(("peer.solve", "lib", "UNKNOWN(limit)"))
                    return (None, None)
                w.record_peer_input("lib", self.clauses, None)
                model = w.peer.solve(self.clauses)
                if model is None:
                    w.log.append(("peer.solve", "lib", len(self.clauses), "UNSAT"))
                    w.peer_models.append(None)
                    return (False, None)
                w.peer_models.append(model)
                w.log.append(("peer.solve", "lib", len(self.clauses), _sha1(repr(model))))
                return (True, tuple(model))

        self.Solver = Solver


class CompletedProcessLike:
    def __init__(self, args, returncode, stdout=b"", stderr=b""):
        self.args, self.returncode, self.stdout, self.stderr = args, returncode, stdout, stderr


def format_cms_output(model, width=None):
    """Real CryptoMiniSat CLI format: 's SATISFIABLE', several 'v' lines, last ends with ' 0'."""
    lits = [str(v if model[v] else -v) for v in range(1, len(model))] + ["0"]
    lines = ["s SATISFIABLE"]
    cur = "v"
    for l in lits:
        if width and len(cur) + 1 + len(l) > width and cur != "v":
            lines.append(cur)
            cur = "v"
        cur += " " + l
    lines.append(cur)
    return "\n".join(lines) + "\n"


# ---------------------------------------------------------------------------
# RNG


class ScriptedRandom:
    """Bound in place of the `random` module inside sampling_strategy/random.py and distribution.py.
    Logs every draw; keeps an exact probability ledger over integer draws (DESIGN C05)."""

    def __init__(self, world, mode="random"):
        self.world = world
        self.rng = world.stream("rng-script")
        self.mode = mode
        self.ledger = Fraction(1)
        self.draws = 0
        self.draw_log = []
        self.flip = False
        self.track = True            # exact probability ledger and draw log (switched off for million-draw needle cases)
        self.float_script = None     # optional callable(site) -> float for continuous draws

    def mark(self):
        self.ledger = Fraction(1)
        self.draw_log = []

    def randrange(self, lo, hi=None):
        if hi is None:
            lo, hi = 0, lo
        n = hi - lo
        if n <= 0:
            raise ValueError("empty range for randrange() (%d, %d, %d)" % (lo, hi, n))
        w = self.world
        self.draws += 1
        if w.draw_cap is not None and self.draws > w.draw_cap:
            raise HarnessCap("draw cap exceeded")
        # corner scripts (always the first / the last / alternating candidate) turn random after a while: a rejection
        # loop that is fed the same candidate for ever only runs into the draw cap and the run is wasted
        mode = self.mode if self.draws <= 600 else "random"
        if mode == "lo":
            v = lo
        elif mode == "hi":
            v = hi - 1
        elif mode == "alt":
            self.flip = not self.flip
            v = lo if self.flip else hi - 1
        else:
            v = lo + self.rng.randrange(n)
        if self.track:
            self.ledger *= Fraction(1, n)
            self.draw_log.append((lo, hi, v))
        if len(w.log) < w.log_cap:
            w.log.append(("rng", lo, hi, v))
        w.count("rng.int")
        return v

    def randint(self, a, b):
        return self.randrange(a, b + 1)

    def _float(self, site, *params):
        w = self.world
        w.count("rng.float")
        if self.float_script is not None:
            v = self.float_script(site, params)
        else:
            v = self.rng.random()
        return v

    def random(self):
        v = self._float("random")
        self.world.log.append(("rngf", "random", repr(v)))
        return v

    def uniform(self, a, b):
        u = self._float("uniform", a, b)
        v = a + (b - a) * u
        self.world.log.append(("rngf", "uniform", repr(v)))
        return v

    def gauss(self, mu, sigma):
        u = self._float("gauss", mu, sigma)
        v = mu + sigma * (2 * u - 1) * 3
        self.world.log.append(("rngf", "gauss", repr(v)))
        return v

    def expovariate(self, lambd):
        import math
        u = self._float("expovariate", lambd)
        v = -math.log(1.0 - min(u, 0.999999)) / lambd
        self.world.log.append(("rngf", "expovariate", repr(v)))
        return v

    def lognormvariate(self, mu, sigma):
        import math
        u = self._float("lognormvariate", mu, sigma)
        v = math.exp(mu + sigma * (2 * u - 1) * 3)
        self.world.log.append(("rngf", "lognormvariate", repr(v)))
        return v

    def shuffle(self, x):
        for i in reversed(range(1, len(x))):
            j = self.randrange(0, i + 1)
            x[i], x[j] = x[j], x[i]

    def choice(self, seq):
        return seq[self.randrange(0, len(seq))]


class ScriptedNumpyRandom:
    """Stands in for `numpy.random` inside tools/unigen.py (seed source for CMSGen)."""

    def __init__(self, world, mode="stream"):
        self.world = world
        self.rng = world.stream("np-seed")
        self.mode = mode
        self.counter = 0

    def randint(self, n):
        if self.mode == "counter":
            v = self.counter
            self.counter += 1
        else:
            v = self.rng.randrange(n)
        self.world.log.append(("np.randint", n, v))
        return v


# ---------------------------------------------------------------------------
# stdout


class SimStdout:
    def __init__(self, world, epipe_after=None):
        self.world = world
        self.nchars = 0
        self.epipe_after = epipe_after
        self.lines = 0
        self.tail = []
        self.encoding = "utf-8"

    def write(self, s):
        self.nchars += len(s)
        if self.epipe_after is not None and self.nchars > self.epipe_after:
            self.epipe_after = None      # one-shot
            self.world.fired("stdout.epipe", "write")
            e = BrokenPipeError(errno.EPIPE, "Broken pipe (injected)")
            e.injected = True
            raise e
        self.lines += s.count("\n")
        if self.world.keep_stdout:
            self.tail.append(s)
        return len(s)

    def flush(self):
        pass

    def isatty(self):
        return False

    def text(self):
        return "".join(self.tail)


# ---------------------------------------------------------------------------
# the world

DEFAULT_KNOBS = {
    "peer": "native",           # native | walk | lexmin | lexmax | cmsgen
    "transport": "lib",         # lib | cli
    "cli_width": None,          # wrap 'v' lines of the fake CLI at this width
    "rng_mode": "random",       # random | lo | hi | alt
    "np_mode": "stream",
    "sampler": "real",          # real | cycle (pycmsgen / pyunigen fakes)
    "env_check": False,         # SWEETPEA_CHECK_SYNTHESIZED
    "real_peers": False,        # leave genuine engines in place
}


class SimWorld:
    def __init__(self, seed, knobs=None, faults=None, keep_stdout=False):
        self.seed = seed
        self.knobs = dict(DEFAULT_KNOBS)
        if knobs:
            self.knobs.update(knobs)
        self.log = []
        self.log_cap = 200000
        self.counters = {}
        self.fault_fired = {}
        self.faults = list(faults or [])
        self.keep_stdout = keep_stdout
        self.peer_calls_cap = None
        self.draw_cap = None
        self.peer_models = []
        self.peer_inputs = []
        self.on_solve = None      # one-shot callback run at the next solver/sampler invocation: "another caller ran meanwhile"
        self.op_trace = {"fs": [], "peer": []}      # kind of every file / peer operation by index (fault-sweep placements)
        self.fs = SimFS(self)
        self.peer = PeerPolicy(self, self.knobs["peer"])
        self.rng = ScriptedRandom(self, self.knobs["rng_mode"])
        self.nprng = ScriptedNumpyRandom(self, self.knobs["np_mode"])
        self.stdout = SimStdout(self)
        self._uuid_n = 0
        self._peer_ops = 0
        self._peer_faults = {}
        self.warnings = []
        self._saved = []
        self._install_faults()

    # -- helpers
    def stream(self, name):
        return stream(self.seed, name)

    def count(self, k, n=1):
        self.counters[k] = self.counters.get(k, 0) + n

    def fired(self, kind, site):
        self.fault_fired[kind] = self.fault_fired.get(kind, 0) + 1
        self.count("fault@" + kind + "@" + site.split(":")[0])
        self.log.append(("fault", kind, site))

    def uuid(self):
        self._uuid_n += 1
        return "sim-%04d" % self._uuid_n

    def digest(self):
        h = hashlib.sha256()
        for e in self.log:
            h.update(repr(e).encode())
        return h.hexdigest()

    def _install_faults(self):
        for f in self.faults:
            kind = f["kind"]
            if kind.startswith("fs."):
                self.fs.faults[f["at"]] = (kind, f.get("arg", 0.5))
            elif kind.startswith("peer."):
                self._peer_faults[f["at"]] = kind
            elif kind == "stdout.epipe":
                self.stdout.epipe_after = f["at"]

    def peer_fault(self, site):
        i = self._peer_ops
        self._peer_ops += 1
        self.op_trace["peer"].append(site)
        k = self._peer_faults.pop(i, None)
        if k is None:
            return None
        self.fired(k, site)
        if k == "peer.unknown":
            if site == "solve":
                return "unknown"
            return None
        if k == "peer.raise":
            e = RuntimeError("engine failure (injected)")
            e.injected = True
            return e
        if k == "peer.memory":
            e = MemoryError("engine out of memory (injected)")
            e.injected = True
            return e
        return None

    def run_interleaved(self):
        """The instant at which the library waits for its solver is where another caller thread of the same process gets to
        run (pycryptosat releases the GIL; the CLI is a child process).  A check may register what that other caller does;
        it runs here, once, to completion - one interleaving of two callers, chosen by the simulator, without real threads."""
        cb = self.on_solve
        if cb is not None:
            self.on_solve = None
            self.count("interleaved-second-caller")
            self.log.append(("interleave", "second-caller-runs"))
            cb()

    def record_peer_input(self, transport, clauses, ind):
        self.peer_inputs.append((transport, [list(c) for c in clauses], list(ind) if ind is not None else None))

    # -- fake CLI
    def fake_cli_run(self, command, capture_output=True, **kw):
        self.count("cli.run")
        exe = os.path.basename(str(command[0]))
        if "cryptominisat" in exe:
            fname = str(command[-1])
            self.run_interleaved()
            text = self.fs.read(fname)
            k = self.peer_fault("solve")
            if k == "unknown":
                self.log.append(("peer.solve", "cli", "UNKNOWN"))
                return CompletedProcessLike(command, 15, b"s INDETERMINATE\n")
            if k is not None:
                self.log.append(("peer.solve", "cli", "CRASH"))
                return CompletedProcessLike(command, 139, b"Segmentation fault\n", b"crash (injected)")
            header, clauses, ind = parse_dimacs_lenient(text)
            self.record_peer_input("cli", clauses, ind)
            model = self.peer.solve(clauses, header[0] if header else None)
            self.peer_models.append(model)
            if model is None:
                self.log.append(("peer.solve", "cli", len(clauses), "UNSAT"))
                return CompletedProcessLike(command, 20, b"s UNSATISFIABLE\n")
            self.log.append(("peer.solve", "cli", len(clauses), _sha1(repr(model))))
            out = format_cms_output(model, self.knobs.get("cli_width"))
            return CompletedProcessLike(command, 10, out.encode())
        raise HarnessCap("unexpected executable " + exe)

    # -- patching
    def _set(self, obj, name, value):
        missing = object()
        old = obj.__dict__.get(name, missing) if isinstance(obj, type) or hasattr(obj, "__dict__") else getattr(obj, name, missing)
        self._saved.append((obj, name, old, missing))
        setattr(obj, name, value)

    def __enter__(self):
        w = self
        fs = self.fs
        kn = self.knobs
        P = pathlib.Path
        orig_write_text, orig_read_text, orig_read_bytes = P.write_text, P.read_text, P.read_bytes
        orig_exists, orig_unlink = P.exists, P.unlink

        def write_text(self_, data, *a, **k):
            if self_.is_absolute():
                return orig_write_text(self_, data, *a, **k)
            return fs.write(str(self_), data)

        def read_text(self_, *a, **k):
            if self_.is_absolute():
                return orig_read_text(self_, *a, **k)
            return fs.read(str(self_))

        def read_bytes(self_):
            if self_.is_absolute():
                return orig_read_bytes(self_)
            return fs.read(str(self_)).encode()

        def exists(self_, *a, **k):
            if self_.is_absolute():
                return orig_exists(self_, *a, **k)
            return fs.exists(str(self_))

        def unlink(self_, *a, **k):
            if self_.is_absolute():
                return orig_unlink(self_, *a, **k)
            return fs.unlink(str(self_))

        import builtins

        def sim_open(file, mode="r", *a, **k):
            p = str(file)
            if os.path.isabs(p):
                return builtins.open(file, mode, *a, **k)
            return fs.open(p, mode)

        # os-level file access by relative path stays inside the simulated cwd as well (os.open + os.fdopen)
        real_os_open, real_fdopen = os.open, os.fdopen
        fake_fds = {}

        def sim_os_open(path, flags, mode=0o777, *a, **k):
            p = os.fspath(path)
            if isinstance(p, bytes) or os.path.isabs(p):
                return real_os_open(path, flags, mode, *a, **k)
            if not (flags & os.O_CREAT) and not fs.exists(p):
                raise FileNotFoundError(errno.ENOENT, os.strerror(errno.ENOENT), p)
            fd = 1_000_000_000 + w.counters.get("os.open", 0)
            w.count("os.open")
            fake_fds[fd] = (p, flags)
            return fd

        def sim_fdopen(fd, mode="r", *a, **k):
            if fd not in fake_fds:
                return real_fdopen(fd, mode, *a, **k)
            p, flags = fake_fds.pop(fd)
            if flags & os.O_APPEND:
                return fs.open(p, "a")
            if (flags & os.O_TRUNC) or not fs.exists(p):
                return fs.open(p, "w" if ("w" in mode or "a" in mode or "+" in mode or (flags & (os.O_WRONLY | os.O_RDWR))) else "r")
            # an existing file opened for writing without truncation: written over from the start, the old tail stays
            return fs.open(p, "r+" if (flags & (os.O_WRONLY | os.O_RDWR)) else "r")
        self._set(os, "open", sim_os_open)
        self._set(os, "fdopen", sim_fdopen)
        self._set(P, "write_text", write_text)
        self._set(P, "read_text", read_text)
        self._set(P, "read_bytes", read_bytes)
        self._set(P, "exists", exists)
        self._set(P, "unlink", unlink)
        # every module of the library sees the simulated cwd through `open` (a refactoring may move file access from
        # pathlib to open() in any of them; a module the simulator does not cover would look for the file on the real disk)
        lib_mods = [m_ for n_, m_ in sorted(sys.modules.items()) if n_.startswith("sweetpea") and m_ is not None and hasattr(m_, "__dict__")]
        for mod in lib_mods:
            self._set(mod, "open", sim_open)
        self._set(M_utility, "generate_uuid", self.uuid)

        def no_download(*a, **k):
            w.count("ensure_executable")
        if not kn["real_peers"]:
            self._set(M_cms, "pycryptosat", FakePycryptosat(self))
            self._set(M_cms, "HAS_PYCRYPTOSAT", kn["transport"] == "lib")
            self._set(M_cms, "run", self.fake_cli_run)
            self._set(M_cms, "ensure_executable_available", no_download)
            from . import samplers
            samplers.install(self)
        self._set(M_random, "random", self.rng)
        self._set(M_dist, "random", self.rng)
        self._set(M_unigen, "random", self.nprng)
        self._old_stdout = sys.stdout
        sys.stdout = self.stdout
        self._old_env = os.environ.get("SWEETPEA_CHECK_SYNTHESIZED")
        if kn["env_check"]:
            os.environ["SWEETPEA_CHECK_SYNTHESIZED"] = "y"
        else:
            os.environ.pop("SWEETPEA_CHECK_SYNTHESIZED", None)
        self._wctx = warnings.catch_warnings(record=True)
        self.warnings = self._wctx.__enter__()
        warnings.simplefilter("always")
        return self

    def __exit__(self, *exc):
        self._wctx.__exit__(None, None, None)
        sys.stdout = self._old_stdout
        if self._old_env is None:
            os.environ.pop("SWEETPEA_CHECK_SYNTHESIZED", None)
        else:
            os.environ["SWEETPEA_CHECK_SYNTHESIZED"] = self._old_env
        for obj, name, old, missing in reversed(self._saved):
            if old is missing:
                try:
                    delattr(obj, name)
                except AttributeError:
                    pass
            else:
                setattr(obj, name, old)
        self._saved = []
        return False
