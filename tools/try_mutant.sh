#!/bin/sh
# tools/try_mutant.sh <patch.diff> "<props>" [budget] [seeds]
# Applies a seeded change to /repo, runs the named checks (no evidence, no self-test), and ALWAYS restores /repo.
PATCH=$(readlink -f "$1"); PROPS=$2; BUDGET=${3:-30}; SEEDS=${4:-0}
cd /repo || exit 2
if ! git diff --quiet; then echo "/repo has uncommitted changes; refusing"; exit 2; fi
git apply "$PATCH" || { echo "patch does not apply"; exit 2; }
trap 'git -C /repo checkout -- . ' EXIT INT TERM
cd /verif
for s in $SEEDS; do for p in $PROPS; do
  VERIF_SEED=$s bin/check $p --budget $BUDGET --no-selftest --no-evidence 2>&1 | grep -v conda | grep -v "^KNOWN-FINDING\|^  File\|^Thread\|^Timeout" | cut -c1-500 | sed "s/^/[$p seed $s] /"
done; done
