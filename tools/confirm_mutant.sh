#!/bin/sh
# tools/confirm_mutant.sh <worktree> <PROP> <seeded-id>
# Confirms a sub-agent's change in its own scratch worktree (suite passes with it, demo fails with it and passes without it),
# then copies patch.diff, the demo and MUTANT.md to /verif/seeded/<seeded-id>/.  Writes confirm.log there.
WT=$1; P=$2; ID=$3
cd "$WT" || exit 2
git diff -- sweetpea > /tmp/wt/confirm_$P.diff
[ -s /tmp/wt/confirm_$P.diff ] || { echo "no source change in $WT"; exit 2; }
D=/verif/seeded/$ID; mkdir -p $D
{
echo "== files changed"; git diff --stat -- sweetpea | tail -3
echo "== applies to /repo HEAD: "; git -C /repo apply --check /tmp/wt/confirm_$P.diff && echo yes
echo "== demo WITH the change"; timeout 300 /venv/bin/python demo_$P.py > /tmp/wt/demo_with_$P.log 2>&1; echo "exit $?"; tail -3 /tmp/wt/demo_with_$P.log | cut -c1-300
git apply -R /tmp/wt/confirm_$P.diff
echo "== demo WITHOUT the change"; timeout 300 /venv/bin/python demo_$P.py > /tmp/wt/demo_without_$P.log 2>&1; echo "exit $?"; tail -2 /tmp/wt/demo_without_$P.log | cut -c1-300
git apply /tmp/wt/confirm_$P.diff
echo "== pinned suite WITH the change"
timeout 1500 /venv/bin/python -m pytest -q -p no:cacheprovider --timeout=900 --continue-on-collection-errors -n 6 2>&1 | tail -2
} 2>&1 | grep -v "conda\|SyntaxWarning\|if name is" | tee $D/confirm.log
cp /tmp/wt/confirm_$P.diff $D/patch.diff; cp demo_$P.py MUTANT.md $D/ 2>/dev/null
rm -f /tmp/wt/confirm_$P.diff /tmp/wt/demo_with_$P.log /tmp/wt/demo_without_$P.log
