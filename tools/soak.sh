#!/bin/sh
# tools/soak.sh "<seeds>" "<props>" [budget]  -- runs checks without touching committed evidence; prints violations
cd "$(dirname "$0")/.." || exit 2
SEEDS=${1:-"1 2 3"}
PROPS=${2:-"C01 C02 C04 C05 C06 C07 C08 C09 C19 C20"}
BUDGET=${3:-30}
for s in $SEEDS; do for p in $PROPS; do
  VERIF_SEED=$s bin/check $p --budget $BUDGET --no-selftest --no-evidence 2>&1 | grep -v conda | grep -v "^KNOWN-FINDING" | cut -c1-600 | sed "s/^/[seed $s] /"
done; done
