#!/usr/bin/env python3
"""Regenerates /verif/MANIFEST.json from the table below (kept in one place so it stays valid)."""
import json
import os

HERE = os.path.dirname(os.path.dirname(os.path.abspath(__file__)))
TECH = "deterministic simulation with fault injection: seeded search over designs x peer/RNG schedules x faults, "

CLAIMED = {
 "C01": ("exploration", "seeded search over designs x peer model choice (native/walk/lexmin/lexmax/cmsgen) x transport (in-process fake, fake CLI) x I/O and peer faults; every returned sequence is checked against an independent reference semantics", "reference-model oracle (refsem V_max)", "6 C01"),
 "C02": ("exploration", "IterateSATGen exhausted under two different peer policies per design; returned multiset compared with an independent enumeration; protocol liveness (solver calls = returned + 1); order independence", "reference-model oracle + schedule-independence + protocol call count", "6 C02"),
 "C04": ("exploration", "RandomGen (and IterateGen/UniformGen when they delegate) under scripted RNG scripts incl. corner scripts and needle cases (10^5-3*10^5 candidates rejected in a row before a valid one exists); every returned sequence checked against the reference semantics", "reference-model oracle under scripted PRNG", "6 C04"),
 "C05": ("exploration", "RandomGen driven to exhaustion (in 30% of the runs after a RandomGen/IterateSATGen call on a sibling design with other weights in the same process); enumerator instrumented from outside; bijection candidates<->valid sequences and exact equal-probability ledger over the ranges the library passed to randrange (N equally likely, completely visited candidates have probability 1/N each)", "exact probability ledger + bijection against reference enumeration", "6 C05"),
 "C06": ("exploration", "RandomGen asked for more than exists (in 30% of the runs after a call on a sibling design with other weights in the same process): returned multiset = independent enumeration, bounded liveness on integer draws, metrics solution_count where the statement applies", "reference-model oracle + bounded liveness", "6 C06"),
 "C07": ("exploration", "IterateSATGen and RandomGen both exhausted in one world on the same design; set equality by level names; no reference semantics involved", "two-realisations-agree (metamorphic) oracle", "6 C07"),
 "C08": ("exploration", "fault-free runs only: every legal peer behaviour and transport, and in 12% of the runs a second caller that runs a whole synthesize_trials of its own at the instant the first call waits for its solver; any exception escaping synthesize_trials for IterateSATGen/RandomGen/CMSGen/UniGen on a constructor-accepted design is a violation", "totality oracle over legal peer behaviours", "6 C08"),
 "C09": ("exploration", "IterateSATGen/RandomGen/IterateGen with n in {0,1,|V|-1,|V|,|V|+1,3|V|}; length = min(n,|V|), no printed sequence more often than its reference multiplicity; only a solver answering 'unknown' excuses a short list, never duplicates; beyond the enumeration bound (unweighted designs, up to 3000 sequences) the sampler is exhausted and the returned sequences are compared with each other; RandomGen is passed as one generator object reused across the calls of a run in 40% of the worlds", "reference-model oracle with fault-relaxed count", "6 C09"),
 "C19": ("exploration", "seeded histories of 3-12 public calls on one block (CrossBlock or a combinator block; all strategies, print/tabulate/csv/tuples/dicts/mismatch) with stdout EPIPE, ENOSPC and a user interrupt at a seeded line injected inside calls; block state invariants after every call; every later synthesize_trials must succeed (fresh-block twin as reference) with the same columns and valid sequences", "history machine with state invariants + fresh-twin reference", "6 C19"),
 "C20": ("exploration", "same histories; conversions and CSV files (read back from the simulated file system) must reproduce every declared factor's returned values, never expose internal factors; CSV sub-check skipped for calls hit by an injected I/O fault", "history machine + output-equivalence oracle over SimFS", "6 C20"),
 "C03": ("exploration", "the block first gets a seeded call history in 30% of the runs (IterateILPGen failing without gurobipy or working against the fake Gurobi peer, RandomGen, IterateGen, UniformGen, print); then ideal-uniform ('cycle') sampler peers: one full cycle over all models of the clauses the library handed to pycmsgen / all projections handed to pyunigen; multiset of returned sequences must equal exhausted IterateSATGen's (one blocking clause per trial-sequence assignment), so no sequence has several models or none", "cycle sampler peer + conservation oracle (bounded model enumeration inside the fake)", "6 C03"),
 "C27": ("exploration", "every formula-based strategy over both transports, incl. big-support cases (sampling sets of 110-1515 variables); per peer invocation the file text in SimFS, what the library's parser delivered, the peer's model and what the library claims it answered are recorded together with the intended CNF object; strict DIMACS oracle, parser = text, claimed solution = model, successive files differ by exactly the blocking clause; the samples UniGen's reader returns = the samples the peer wrote (the fake executable lists small solution spaces before the samples, as the reader expects); EIO/ENOSPC injected", "protocol conformance over the recorded file/peer history", "6 C27"),
 "C28": ("exploration", "fake Gurobi peer reads each round's OPB text from SimFS and answers by the peer policy; ILP solution set = SAT solution set on generated clause sets with EQ/LT/GT requests (brute-force documented meaning as referee) and on generated designs; each appended OPB constraint excludes exactly the previous solution", "fake ILP peer + two-realisations-agree oracle", "6 C28"),
 "C29": ("exploration", "histories of 1-4 SMGen calls over its process-global state; scattered_map_core.random scripted; virtual clock advanced per traced line; the fake threading.Timer fires clock-driven or pinned to an instant after arming and its handler is delivered in a helper thread (production) or in the main thread; user abort injected at a traced line; every returned sequence checked against the reference semantics", "virtual clock + timer/pre-emption scheduler (sys.settrace line events) + reference-model oracle", "6 C29"),
 "C18": ("exploration", "histories of constructor calls over one pool of shared factor, constraint and operand-BLOCK Python objects (CrossBlock, MultiCrossBlock, Repeat, Merge, Nest; stories about one operand object used two or three times; role-change stories over weighted factors; a constructor interrupted at a seeded line) interleaved with sampling of already built blocks; reference = the same expression built alone from fresh objects; trial counts, exhausted sets (or, beyond the cap, cross-checks with the twin's mismatch checker) and mismatch verdicts must agree", "history over shared mutable objects + fresh-twin reference", "6 C18"),
 "C22": ("exploration", "designs with continuous factors; every continuous draw goes through the scripted PRNG and the script decides which whole-sequence attempt satisfies the ContinuousConstraint; returned values re-derived from the returned rows (same-trial inputs, ContinuousFactorWindow with NaN rules, cumulative sums per sequence), again after later calls on the block; attempt count as bounded liveness", "scripted PRNG ('bad luck' fault placement) + recomputation oracle", "6 C22"),
 "C15": ("exploration", "derived-level tables generated as data (total, deliberately overlapping or non-covering on a reachable window, ElseLevel, early start, stride); overlapping => constructor raises, non-covering => every strategy returns [], a well-defined design is not refused (ElseLevel objects shared between factors in half the designs), otherwise every returned sequence carries exactly the level its window selects and '' where the factor does not apply; IterateSATGen under every peer policy, RandomGen under scripted draws, CMSGen", "reference-model oracle (R-DER) over peer/RNG schedules; the design generator carries most of the weight", "6 C15"),
 "C16": ("exploration", "block.trials_per_sample() against the documented arithmetic (reference R-T) and the length of every factor's column in every sequence from IterateSATGen, RandomGen, CMSGen, UniGen and SMGen (virtual-clock world)", "reference-model oracle (R-T) over all strategies; the design generator carries most of the weight", "6 C16"),
 "C23": ("exploration", "weight-vs-copies metamorphic twin: each weighted level replaced by separately named copies (derived tables rewritten); both designs exhausted with IterateSATGen in one world; equal sets when the weighted factor is crossed, equal multisets when it is in no crossing; no hidden factor exposed", "metamorphic twin oracle; the design generator carries most of the weight", "6 C23"),
 "C24": ("exploration", "the four documented combinator laws as generator templates, both sides built from fresh objects and exhausted under the run's peer policy: same constructor outcome, same trial count, same solution multiset", "documented-equivalence (metamorphic) oracle", "6 C24"),
 "C25": ("exploration", "Nest(outer, inner) and its operands exhausted in one world: structural check of every returned sequence straight from the statement (groups, constancy, representatives valid for outer, groups valid for inner, length), completeness by the product construction, associativity of nested Nest", "compositional (product-structure) oracle; the design generator carries most of the weight", "6 C25"),
 "C26": ("exploration", "one constraint of each scoped kind placed on the inner block or on the combinator of Repeat/Merge, with and without preamble; exhausted solution set compared with the reference semantics using repetition windows (block constraints per repetition incl. preceding preamble trials, combinator constraints over the whole sequence)", "reference-model oracle (R-SCOPE windows); the design generator carries most of the weight", "6 C26"),
}

NA = {
 "C10": "pure function (n, k, relation) -> clauses: no I/O, draw, clock, state or peer its truth could depend on (its reachable consequence, ExactlyK with k beyond the window, is observed by C01)",
 "C11": "pure function of a formula; the Tseitin cache is per call and holds no cross-call state",
 "C12": "pure clause builders; nothing schedule- or fault-dependent",
 "C13": "pure index->arrangement functions; the all-parameters quantifier is bounded enumeration, not a schedule (the orders RandomGen actually produces are exercised by C05/C06)",
 "C14": "pure layout arithmetic and decode round-trip on constructed assignments; input enumeration (every peer model in C01/C02 does pass through Gen.decode and is checked semantically)",
 "C17": "pure function of (block, sequence); perturbed-input generation is not simulation (its 'valid => no mismatch' half runs inside C19 histories)",
 "C21": "pure function of its arguments that prints; no state, no nondeterminism, a failing stdout changes nothing about the numbers",
}

PENDING = {}


def main():
    checks = []
    for pid in sorted(CLAIMED):
        cat, text, tech, ref = CLAIMED[pid]
        checks.append({
            "property_id": pid,
            "quick_cmd": "bin/check %s --tier quick" % pid,
            "thorough_cmd": "bin/check %s --tier thorough" % pid,
            "evidence_file": "evidence/%s.json" % pid,
            "replay_cmd_template": "bin/check %s --replay {path}" % pid,
            "engine": "simworld",
            "level_claimed": {"category": cat, "text": text + "; a clean batch is evidence over the sampled space, not proof",
                              "design_ref": "DESIGN.md section " + ref},
            "level_note": "trusted base: sim/refsem.py (reading of the documentation, where used), sim/world.py + sim/samplers.py fakes (return only genuine models; SAT search is real pycryptosat), known findings file",
            "technique": TECH + tech,
        })
    na = [{"property_id": k, "reason": v} for k, v in sorted(NA.items())]
    import json as _j
    allp = [_j.loads(l)["id"] for l in open(os.path.join(HERE, "properties.jsonl"))]
    for pid in allp:
        if pid not in CLAIMED and pid not in NA:
            na.append({"property_id": pid, "reason": PENDING.get(pid, "not claimed yet: check under construction (see DESIGN.md section 6); no verdict is given for it")})
    m = {
        "version": 1,
        "setup_cmd": "/venv/bin/python -c \"import sweetpea, pycryptosat, pycmsgen, pyunigen, os; assert os.path.realpath(sweetpea.__file__).startswith('/repo/'), sweetpea.__file__\"",
        "hooks": {
            "guard": "SWEETPEA_VERIF",
            "enable": "no hooks in /repo: every seam is taken over from outside by rebinding module attributes inside sim.world.SimWorld (DESIGN.md section 3.2)",
            "baseline_off_cmd": "cd /repo && /venv/bin/python -m pytest -ra -q -p no:cacheprovider --timeout=900 --continue-on-collection-errors",
            "source_commits": [],
            "add_only": True,
        },
        "engines": [{"name": "simworld", "path": "sim/", "serves_properties": sorted(CLAIMED),
                     "kind_free_text": "deterministic simulation: seeded design/history generator + SimWorld (fake solver/sampler/ILP peers, SimFS, scripted PRNGs, virtual clock/timer, fault injection) + reference-semantics and metamorphic oracles"}],
        "checks": checks,
        "not_applicable": na,
        "notes": "Genuine defects repaired by 'fix:' commits in /repo and defects recorded as known findings are listed in findings/known_findings.json; see DESIGN.md section 15.",
    }
    with open(os.path.join(HERE, "MANIFEST.json"), "w") as f:
        json.dump(m, f, indent=1)
    print("MANIFEST.json written: %d checks, %d not_applicable" % (len(checks), len(na)))


if __name__ == "__main__":
    main()
