#!/bin/sh
# (re)create /tmp/wt/m/<id> at /repo HEAD with seeded/<id>/patch.diff applied
for w in $(git -C /repo worktree list --porcelain | grep '^worktree /tmp/wt/' | cut -d' ' -f2); do git -C /repo worktree remove --force $w; done
git -C /repo worktree prune
mkdir -p /tmp/wt/m
for d in /verif/seeded/*/; do
  id=$(basename $d)
  git -C /repo worktree add --detach /tmp/wt/m/$id HEAD >/dev/null 2>&1 || { echo "WT-FAIL $id"; continue; }
  if git -C /tmp/wt/m/$id apply $d/patch.diff 2>/dev/null; then echo "ok $id";
  elif git -C /tmp/wt/m/$id apply --3way $d/patch.diff >/dev/null 2>&1; then echo "ok3 $id";
  else echo "NOAPPLY $id"; fi
done
