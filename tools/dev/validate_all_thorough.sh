#!/bin/sh
S=$1
for p in C06 C09 C05 C07 C04 C01 C15 C16 C08 C03 C27 C02 C19 C20 C22 C28 C29 C24 C18 C23 C25 C26; do
  t0=$(date +%s)
  VERIF_COUNTERS=1 VERIF_SEED=$S timeout 5400 bin/check $p --tier thorough --no-evidence --no-selftest > /tmp/wt/th4_s${S}_$p.log 2>&1; rc=$?
  echo "[$p s$S rc=$rc $(( $(date +%s) - t0 ))s] $(grep 'tier=' /tmp/wt/th4_s${S}_$p.log | cut -c1-200)"
  grep -v "conda\|^KNOWN-FINDING\|^  File\|^Thread\|^Timeout\|Syntax\|name is\|^counters\|^faults fired\|tier=\|^skips" /tmp/wt/th4_s${S}_$p.log | cut -c1-700 | head -14 | sed "s/^/    /"
done
echo THOROUGH-DONE
