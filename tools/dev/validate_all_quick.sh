#!/bin/sh
# official.sh <seed> [extra args]: all checks on /repo with evidence + determinism self-test
cd /verif
S=$1; shift
for p in C01 C02 C03 C04 C05 C06 C07 C08 C09 C15 C16 C18 C19 C20 C22 C23 C24 C25 C26 C27 C28 C29; do
  VERIF_COUNTERS=1 VERIF_SEED=$S timeout 2400 bin/check $p "$@" > /tmp/wt/off_s${S}_$p.log 2>&1; rc=$?
  echo "[$p s$S rc=$rc] $(grep 'tier=' /tmp/wt/off_s${S}_$p.log | cut -c1-200)"
  grep -v "conda\|^KNOWN-FINDING\|^  File\|^Thread\|^Timeout\|Syntax\|name is\|^counters\|^faults fired\|tier=\|^skips" /tmp/wt/off_s${S}_$p.log | cut -c1-600 | head -12 | sed "s/^/    /"
done
echo OFFICIAL-DONE
