#!/usr/bin/env python3
"""final matrix: each seeded change against the check(s) that DESIGN section 16 names, on the final tree."""
import os, re, subprocess, sys, json, time
special = {  # mutant id prefix (up to the first '-' after M-Cxx?) -> checks
 "M-C01-": ["C01"], "M-C01f": ["C01"], "M-C02-": ["C02"], "M-C02b": ["C18"], "M-C02c": ["C18"], "M-C02e": ["C01"], "M-C02g": ["C02"],
 "M-C03-": ["C03"], "M-C03b": ["C03"], "M-C03d": ["C03"], "M-C03f": ["C03"],
 "M-C04-": ["C04"], "M-C04c": ["C04"], "M-C04e": ["C04"], "M-C04g": ["C04"],
 "M-C05-": ["C06"], "M-C05b": ["C06"], "M-C05d": ["C05"], "M-C05f": ["C05"],
 "M-C06-": ["C06"], "M-C06c": ["C06"], "M-C06e": ["C07"], "M-C06g": ["C09"],
 "M-C07-": ["C07"], "M-C07d": ["C07"], "M-C07f": ["C07"],
 "M-C08-": ["C08"], "M-C08c": ["C08"], "M-C08e": ["C08"], "M-C08g": ["C08"],
 "M-C09-": ["C09"], "M-C09b": ["C09"], "M-C09c": ["C09"], "M-C09e": ["C09"], "M-C09g": ["C09"],
 "M-C15-": ["C15"], "M-C15c": ["C15"], "M-C15e": ["C15"], "M-C15g": ["C15"],
 "M-C16-": ["C16"], "M-C16d": ["C16"], "M-C16f": ["C16"],
 "M-C18-": ["C18"], "M-C18c": ["C18"], "M-C18e": ["C18"], "M-C18g": ["C18"],
 "M-C19-": ["C19"], "M-C19b": ["C19"], "M-C19c": ["C19"], "M-C19e": ["C19"], "M-C19g": ["C19"],
 "M-C20-": ["C20"], "M-C20c": ["C20"], "M-C20e": ["C20"], "M-C20g": ["C20"],
 "M-C22-": ["C22"], "M-C22b": ["C22"], "M-C22c": ["C22"], "M-C22e": ["C22"], "M-C22g": ["C22"],
 "M-C23-": ["C23"], "M-C23c": ["C18"], "M-C23e": ["C23"], "M-C23g": ["C23"],
 "M-C24-": ["C24"], "M-C24d": ["C24"], "M-C24f": ["C18"],
 "M-C25-": ["C25"], "M-C25d": ["C25"], "M-C25f": ["C25"],
 "M-C26-": ["C26"], "M-C26b": ["C18"], "M-C26c": ["C26"], "M-C26e": ["C07"], "M-C26g": ["C26"],
 "M-C27-": ["C27"], "M-C27b": ["C27"], "M-C27c": ["C27"], "M-C27e": ["C27"], "M-C27g": ["C27"],
 "M-C28-": ["C28"], "M-C28b": ["C28"], "M-C28d": ["C28"], "M-C28f": ["C28"],
 "M-C29-": ["C29"], "M-C29b": ["C29"], "M-C29d": ["C29"], "M-C29f": ["C29"],
}
root = sys.argv[1] if len(sys.argv) > 1 else "/verif"
out = {}
cost = {"C27": 1, "C29": 1, "C22": 1, "C04": 2, "C08": 2, "C05": 2, "C06": 2, "C15": 2, "C16": 2, "C28": 2, "C19": 3, "C20": 3, "C01": 3, "C07": 4, "C09": 5, "C26": 5, "C25": 5, "C03": 6, "C24": 6, "C23": 6, "C02": 7, "C18": 8}
ids = sorted(os.listdir("/verif/seeded"), key=lambda m: (cost[special[m[:6]][0]] if not m.startswith("M-C01d") else 0, m))
for mid in ids:
    if mid.startswith("M-C01d"):
        continue
    key = mid[:6]
    checks = special[key]
    wt = "/tmp/wt/m/" + mid
    for P in checks:
        t0 = time.time()
        env = dict(os.environ, VERIF_REPO=wt, VERIF_SEED="1")
        r = subprocess.run(["timeout", "2400", "bin/check", P, "--no-selftest", "--no-evidence"], cwd=root, env=env, capture_output=True, text=True)
        txt = r.stdout + r.stderr
        idx = sorted(int(m.group(1)) for m in re.finditer(r"replay=\S*-(\d+)\.json", txt))
        reg = re.findall(r"replay=\S*(regression-\S+)\.json", txt)
        summ = re.search(r"runs=\d+ ok=\d+ skip=\d+ known=\d+ violations=\d+ harness_errors=\d+", txt)
        line = "%s %s rc=%d first=%s regressions=%s %s %.0fs" % (mid, P, r.returncode, idx[0] if idx else None, ",".join(reg) or "-", summ.group(0) if summ else "?", time.time() - t0)
        print(line, flush=True)
print("FINAL-MATRIX-DONE")
