import re, sys
rows=[]
for l in open('/tmp/wt/final_matrix.log'):
    m=re.match(r"(\S+) (C\d\d) rc=(\d+) first=(\S+) regressions=(\S+) runs=(\d+) ok=(\d+) skip=(\d+) known=(\d+) violations=(\d+)", l)
    if m: rows.append(m.groups())
rows.sort()
out=["## Appendix C — the seeded changes against the final tree","",
"Generated from the last matrix run (`VERIF_SEED=1`, whole quick range of the named check, /repo at the final `fix:` commit plus the",
"seeded change, /verif at the final commit). \"first\" is the index of the first violating run, \"signatures\" the number of distinct",
"violation signatures the run reported, 'violating runs' how many runs of the range violated; a pinned witness of an earlier repair that fails again is named. Rows are missing for runs",
"that had not finished when the session ended (section 16 has the result measured when the change arrived).","",
"| Seeded change | check | caught | first | violating runs | signatures | witness failing again |","|---|---|---|---|---|---|---|"]
for mid,P,rc,first,reg,runs,ok,skip,known,viol in rows:
    out.append("| %s | %s | %s | %s | %d of %s | %s | %s |" % (mid,P,"yes" if rc=="1" else "**no**", first if first!="None" else "-", int(runs)-int(ok)-int(skip)-int(known), runs, viol, reg.replace("regression-","") if reg!="-" else ""))
print("\n".join(out))
print()
print("%d of %d finished runs caught the change." % (sum(1 for r in rows if r[2]=="1"), len(rows)), file=sys.stderr)
